module verifsim

go 1.22
