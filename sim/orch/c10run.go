package main

import (
	"bytes"
	"encoding/base64"
	"fmt"
	"os"
	"path/filepath"
	"sort"
	"strings"
	"sync"
	"sync/atomic"
	"time"
)

type c10Tier struct {
	name                string
	nGen, K             int
	nExtra              int // programs whose reference is one fresh process per variant
	nSim, nNative       int
	cliK                int
	selfSeeds, selfReps int
	selfPars            []int
	budget              time.Duration
}

func c10TierOf(name string) c10Tier {
	switch name {
	case "quick":
		return c10Tier{name: name, nGen: envInt("VERIF_C10_NGEN", 30), nExtra: envInt("VERIF_C10_NEXTRA", 200), K: 3, nSim: envInt("VERIF_C10_NSIM", 360), nNative: envInt("VERIF_C10_NNATIVE", 160), cliK: 3,
			selfSeeds: 2, selfReps: 10, selfPars: []int{16, 1}, budget: time.Duration(envInt("VERIF_BUDGET_S", 900)) * time.Second}
	case "thorough":
		return c10Tier{name: name, nGen: envInt("VERIF_C10_NGEN", 320), nExtra: envInt("VERIF_C10_NEXTRA", 1200), K: 8, nSim: envInt("VERIF_C10_NSIM", 14000), nNative: envInt("VERIF_C10_NNATIVE", 3500), cliK: 4,
			selfSeeds: 3, selfReps: 30, selfPars: []int{1, 4, 16}, budget: time.Duration(envInt("VERIF_BUDGET_S", 1500)) * time.Second}
	}
	infraFail("unknown tier %q", name)
	return c10Tier{}
}

// CliFresh is a fresh-process run of the shipped binary (I2 only).
type CliFresh struct {
	Src      string   `json:"src_b64"`
	SrcName  string   `json:"src_name"`
	DstName  string   `json:"dst_name"`
	Abs      bool     `json:"abs"`
	Env      []string `json:"env"`
	Debug    bool     `json:"debug_flag"`
	Sim      bool     `json:"seeded_entropy_binary,omitempty"`
	InitSeed uint64   `json:"init_seed,omitempty"`
	Argv0    string   `json:"argv0,omitempty"`     // the command is invoked through a symlink of this name
	SrcMtime int64    `json:"src_mtime,omitempty"` // modification time given to the source file (unix seconds)
	Wrap     []string `json:"wrap,omitempty"`
}

type cliOutcome struct {
	Exit int
	Sha  string
	Len  int
	Has  bool
}

func (o cliOutcome) String() string {
	return fmt.Sprintf("exit=%d file=%v sha=%.16s len=%d", o.Exit, o.Has, o.Sha, o.Len)
}

func (c *simCtx) runCli(cf *CliFresh) cliOutcome {
	dir := c.newRunDir()
	defer os.RemoveAll(dir)
	src, _ := base64.StdEncoding.DecodeString(cf.Src)
	sp := filepath.Join(dir, cf.SrcName)
	os.WriteFile(sp, src, 0644)
	sa, da := cf.SrcName, cf.DstName
	if cf.Abs {
		sa, da = sp, filepath.Join(dir, cf.DstName)
	}
	if cf.SrcMtime != 0 {
		t := time.Unix(cf.SrcMtime, 0)
		os.Chtimes(sp, t, t)
	}
	argv := []string{c.b.Cli}
	env := cf.Env
	if cf.Sim {
		argv = []string{c.b.CliSim}
		// one P and no background GC: otherwise sync.Pool hits/misses shift the entropy draw count
		env = append(append([]string{}, cf.Env...), fmt.Sprintf("VERIFSIM_INIT_SEED=%d", cf.InitSeed), "GOMAXPROCS=1", "GOGC=off")
	}
	if cf.Argv0 != "" { // same binary under another name
		ln := filepath.Join(dir, cf.Argv0)
		if err := os.Symlink(argv[0], ln); err == nil {
			argv[0] = ln
		}
	}
	if cf.Debug {
		argv = append(argv, "-d")
	}
	if len(cf.Wrap) > 0 {
		argv = append(append([]string{}, cf.Wrap...), argv...)
	}
	argv = append(argv, sa, da)
	pr := runProc(workerWatchdog, dir, baseEnv(env...), argv...)
	if pr.TimedOut {
		infraFail("gosk CLI watchdog expired on %s", cf.SrcName)
	}
	if pr.StartErr != "" {
		infraFail("cannot start gosk CLI: %s", pr.StartErr)
	}
	o := cliOutcome{Exit: pr.Exit}
	if b, err := os.ReadFile(filepath.Join(dir, cf.DstName)); err == nil {
		o.Has, o.Sha, o.Len = true, shaHex(b), len(b)
	}
	return o
}

// ---------- shrinking ----------

func usedSources(sc *Script) map[int]bool {
	u := map[int]bool{}
	for _, o := range sc.Ops {
		if o.Op == "parse" {
			u[o.P] = true
		}
	}
	return u
}

func (c *simCtx) tryCandidate(spec *RunSpec, ops []Op, F map[string]*RefOutcome, classes map[string]string, class string) bool {
	cand := *spec
	cand.Script.Ops = ops
	res := c.runSpec(&cand)
	v, _, err := evalHistorySafe(&cand, res, F, classes)
	return err == nil && v != nil && v.Class == class
}

func evalHistorySafe(spec *RunSpec, res *RunResult, F map[string]*RefOutcome, classes map[string]string) (v *Violation, st *histStats, err error) {
	defer func() {
		if r := recover(); r != nil {
			if me, ok := r.(modelErr); ok {
				err = me
				return
			}
			panic(r)
		}
	}()
	v, st = evalHistory(spec, res, F, classes)
	return
}

// shrinkHistory is ddmin over the operation list; each candidate runs in a fresh process.
func (c *simCtx) shrinkHistory(spec *RunSpec, F map[string]*RefOutcome, classes map[string]string, class string, maxRuns int) (*RunSpec, int) {
	ops := append([]Op(nil), spec.Script.Ops...)
	runs := 0
	n := 2
	for len(ops) >= 2 && runs < maxRuns {
		chunk := (len(ops) + n - 1) / n
		var cands [][]Op
		for s := 0; s < len(ops); s += chunk {
			e := s + chunk
			if e > len(ops) {
				e = len(ops)
			}
			cnd := append(append([]Op(nil), ops[:s]...), ops[e:]...)
			if len(cnd) > 0 {
				cands = append(cands, cnd)
			}
		}
		okIdx := int32(-1)
		results := make([]bool, len(cands))
		parallelDo(len(cands), 16, func(i int) {
			results[i] = c.tryCandidate(spec, cands[i], F, classes, class)
		})
		runs += len(cands)
		for i, ok := range results {
			if ok {
				okIdx = int32(i)
				break
			}
		}
		if okIdx >= 0 {
			ops = cands[okIdx]
			if n > 2 {
				n--
			}
		} else if chunk > 1 {
			n *= 2
			if n > len(ops) {
				n = len(ops)
			}
		} else {
			break
		}
	}
	out := *spec
	out.Script.Ops = ops
	// blank sources that are no longer referenced
	used := usedSources(&out.Script)
	out.Script.Sources = append([]string(nil), out.Script.Sources...)
	for i := range out.Script.Sources {
		if !used[i] {
			out.Script.Sources[i] = ""
		}
	}
	return &out, runs
}

// shrinkPrograms: after the operation list is minimal, ddmin over the source lines of every program
// the history still uses. Each candidate program needs its own fresh-process references (two
// runs, which must agree) and one run of the history; all candidates of a round run in parallel.
func (c *simCtx) shrinkPrograms(spec *RunSpec, F map[string]*RefOutcome, refSpecs map[string][]*RunSpec, class string, maxRuns int) (*RunSpec, int) {
	cur := *spec
	cur.Script.Sources = append([]string(nil), spec.Script.Sources...)
	cur.ProgKeys = append([]string(nil), spec.ProgKeys...)
	runs := 0
	type candRes struct {
		ok    bool
		key   string
		ref   *RefOutcome
		specs []*RunSpec
		src   string
	}
	used := usedSources(&cur.Script)
	for li := range cur.Script.Sources {
		if !used[li] {
			continue
		}
		raw, _ := base64.StdEncoding.DecodeString(cur.Script.Sources[li])
		lines := strings.Split(string(raw), "\n")
		n := 2
		for len(lines) >= 2 && runs < maxRuns {
			chunk := (len(lines) + n - 1) / n
			var cands [][]string
			for st := 0; st < len(lines); st += chunk {
				e := st + chunk
				if e > len(lines) {
					e = len(lines)
				}
				cands = append(cands, append(append([]string(nil), lines[:st]...), lines[e:]...))
			}
			out := make([]candRes, len(cands))
			parallelDo(len(cands), 16, func(i int) {
				src := []byte(strings.Join(cands[i], "\n"))
				pp := &PoolProg{Key: shaHex(src)[:16], Src: src}
				s1 := refSpec(cur.Variant, pp, deriveSeed(cur.Seed, 901, uint64(i)*2+uint64(runs)*131))
				s2 := refSpec(cur.Variant, pp, deriveSeed(cur.Seed, 902, uint64(i)*2+1+uint64(runs)*131))
				o1, _ := refOutcomeOf(c.runSpec(s1))
				o2, _ := refOutcomeOf(c.runSpec(s2))
				o1.ExitCode, o2.ExitCode = 0, 0
				if o1 != o2 || !o1.Admitted() {
					return
				}
				cand := cur
				cand.Script.Sources = append([]string(nil), cur.Script.Sources...)
				cand.ProgKeys = append([]string(nil), cur.ProgKeys...)
				cand.Script.Sources[li] = base64.StdEncoding.EncodeToString(src)
				cand.ProgKeys[li] = pp.Key
				F2 := map[string]*RefOutcome{}
				for k, v := range F {
					F2[k] = v
				}
				F2[pp.Key] = &o1
				res := c.runSpec(&cand)
				v, _, err := evalHistorySafe(&cand, res, F2, map[string]string{})
				if err == nil && v != nil && v.Class == class {
					out[i] = candRes{ok: true, key: pp.Key, ref: &o1, specs: []*RunSpec{s1, s2}, src: cand.Script.Sources[li]}
				}
			})
			runs += 3 * len(cands)
			reduced := false
			for i := range cands {
				if out[i].ok {
					lines = cands[i]
					cur.Script.Sources[li] = out[i].src
					cur.ProgKeys[li] = out[i].key
					F[out[i].key] = out[i].ref
					refSpecs[out[i].key] = out[i].specs
					reduced = true
					break
				}
			}
			if reduced {
				if n > 2 {
					n--
				}
			} else if chunk > 1 {
				n *= 2
				if n > len(lines) {
					n = len(lines)
				}
			} else {
				break
			}
		}
	}
	return &cur, runs
}

// ---------- the check ----------

type c10Report struct {
	violations int
	known      int
	lines      []string
}

func runC10(tierName string) int {
	t0 := time.Now()
	tier := c10TierOf(tierName)
	baseSeed := baseSeedFromEnv()
	fmt.Printf("C10 %s VERIF_SEED=%d\n", tier.name, baseSeed)
	findings := loadFindings()
	b := doBuild(true)
	fmt.Printf("build: %.1fs scratch=%s (%s; %s)\n", b.BuildSecs, b.Scratch, b.GoDefault, b.GoSim)
	c := &simCtx{b: b, runRoot: filepath.Join(b.Scratch, "runs")}
	par := envInt("VERIF_PAR", 16)

	longHistories = tier.name == "thorough"
	pool := buildPool(baseSeed, tier.nGen, tier.nExtra, filepath.Join(verifDir(), "corpus"))
	variants := []string{"sim", "native"}
	classes := map[string]string{}
	for _, pp := range pool {
		classes[pp.Key] = pp.P.Class()
	}

	rep := &c10Report{}
	report := func(rf *ReplayFile) {
		rf.Signature = rf.Violation.Signature() + "/" + rf.Kind
		if k := matchKnown(findings, "C10", rf.Signature); k != nil {
			rep.known++
			fmt.Printf("KNOWN-FINDING: property=C10 %s (%s)\n", k.What, rf.Signature)
			return
		}
		p := writeReplay(rf)
		rep.violations++
		fmt.Printf("VIOLATION property=C10 replay=%s\n", p)
		fmt.Printf("  class=%s op=%d prog=%s\n  %s\n  expected: %s\n  observed: %s\n", rf.Violation.Class, rf.Violation.Op, rf.Violation.ProgKey, rf.Violation.Detail, rf.Violation.Expected, rf.Violation.Observed)
	}

	// Phase 1: fresh-process references (I2) for both worker variants.
	tRef := time.Now()
	i2vs, i2pairs := c.computeRefs(pool, variants, tier.K, baseSeed, par)
	i2seen := map[string]bool{}
	for i, v := range i2vs {
		if i2seen[i2pairs[i][0].Variant] { // one report per variant is enough; all are counted
			continue
		}
		i2seen[i2pairs[i][0].Variant] = true
		report(&ReplayFile{Property: "C10", Kind: "c10-fresh", BaseSeed: baseSeed, Tier: tier.name, Violation: *v, Pair: i2pairs[i], Exact: i2pairs[i][0].Variant == "sim"})
	}
	excluded := map[string]int{}
	var admitted = map[string][]int{}
	for i, pp := range pool {
		for _, vn := range variants {
			if o := pp.Ref[vn]; o != nil && o.Admitted() {
				admitted[vn] = append(admitted[vn], i)
			} else if o == nil {
				excluded[vn+":fresh-processes-disagree"]++
			} else {
				excluded[vn+":parse="+o.ParseClass+",exec="+o.ExecClass]++
			}
		}
	}
	crossToolchainDiff := 0
	for _, pp := range pool {
		a, bb := pp.Ref["sim"], pp.Ref["native"]
		if a != nil && bb != nil && (a.Sha != bb.Sha || a.ParseClass != bb.ParseClass || a.ExecClass != bb.ExecClass) {
			crossToolchainDiff++
		}
	}
	fmt.Printf("references: %d programs x %d fresh processes x %d variants in %.1fs; admitted sim=%d native=%d; excluded=%v; cross-toolchain differences (informational)=%d\n",
		len(pool), tier.K, len(variants), time.Since(tRef).Seconds(), len(admitted["sim"]), len(admitted["native"]), excluded, crossToolchainDiff)
	if os.Getenv("VERIF_DEBUG") != "" {
		for _, pp := range pool {
			fmt.Printf("  prog %-16s %-8s cls=%s sim[%v] native[%v] lines=%d\n", pp.P.Name, pp.P.Origin, pp.P.Class(), pp.Ref["sim"], pp.Ref["native"], bytes.Count(pp.Src, []byte("\n")))
		}
	}
	if len(admitted["sim"]) < 3 || len(admitted["native"]) < 3 {
		infraFail("fewer than 3 programs admitted to the pool - workload generator or build broken")
	}

	// Phase 1b: shipped binary, fresh processes only.
	cliRuns, cliDisagree := 0, 0
	{
		type cj struct {
			pi, k int
			sim   bool
		}
		var jobs []cj
		for pi := range pool {
			if pool[pi].Extra {
				continue
			}
			for k := 0; k < tier.cliK; k++ {
				jobs = append(jobs, cj{pi, k, false})
			}
			for k := 0; k < tier.cliK; k++ {
				jobs = append(jobs, cj{pi, k, true})
			}
		}
		outs := make([]cliOutcome, len(jobs))
		cfs := make([]*CliFresh, len(jobs))
		parallelDo(len(jobs), par, func(i int) {
			jb := jobs[i]
			tag := uint64(300)
			if jb.sim {
				tag = 301
			}
			r := NewRNG(deriveSeed(baseSeed, tag, uint64(jb.pi)*64+uint64(jb.k)))
			cf := &CliFresh{Sim: jb.sim, InitSeed: r.U64() % 1000000007, Src: base64.StdEncoding.EncodeToString(pool[jb.pi].Src), SrcName: pick(r, []string{"in.nas", "src.asm", "a.nas", "prog.nas"}), DstName: pick(r, destNames), Abs: r.Chance(1, 2), Env: drawProcEnv(r, true), Debug: r.Chance(1, 5),
				Argv0: pick(r, []string{"", "", "nask", "gosk-2.0", "as"}), SrcMtime: int64(r.Intn(2000000000)) + 1, Wrap: pick(r, procWraps)}
			cfs[i] = cf
			outs[i] = c.runCli(cf)
		})
		cliRuns = len(jobs)
		cliReported := map[bool]bool{}
		for i, jb := range jobs {
			if jb.k == 0 || cliReported[jb.sim] {
				continue
			}
			first := outs[i-jb.k]
			if outs[i] != first {
				cliDisagree++
				report(&ReplayFile{Property: "C10", Kind: "c10-cli", BaseSeed: baseSeed, Tier: tier.name, Exact: jb.sim,
					Violation: Violation{Property: "C10", Class: "I2-fresh-processes-disagree", Op: -1, ProgKey: pool[jb.pi].Key,
						Detail: "two fresh runs of the gosk command on the same source disagree (" + pool[jb.pi].P.Name + fmt.Sprintf("; seeded-entropy binary=%v)", jb.sim), Expected: first.String(), Observed: outs[i].String()},
					CliPair: []*CliFresh{cfs[i-jb.k], cfs[i]}})
				cliReported[jb.sim] = true // one report per binary is enough; all are counted
			}
		}
	}

	// Phase 2: histories.
	type agg struct {
		sync.Mutex
		evals, nontrivial                                         int
		sigs                                                      map[string]bool
		adj                                                       map[string]bool
		progPairs                                                 map[string]map[[2]string]bool
		reexecProgs                                               map[string]map[string]bool
		probes                                                    map[string]int
		prefillKinds                                              map[string]int
		execs, parses, reexec, clock, gcs, logs, sweeps, prefills int
		simS                                                      float64
		draws                                                     uint64
		samples                                                   []any
	}
	A := &agg{sigs: map[string]bool{}, adj: map[string]bool{}, probes: map[string]int{}, prefillKinds: map[string]int{},
		progPairs:   map[string]map[[2]string]bool{"sim": {}, "native": {}},
		reexecProgs: map[string]map[string]bool{"sim": {}, "native": {}}}
	perVariant := map[string]int{}
	var stopFlag atomic.Bool
	var firstViol sync.Once
	type found struct {
		spec *RunSpec
		res  *RunResult
		v    *Violation
	}
	var foundList []found
	var fmu sync.Mutex
	tH := time.Now() // the budget bounds the history phase
	runBatch := func(variant string, n int, tag uint64) {
		F := map[string]*RefOutcome{}
		for _, pp := range pool {
			if pp.Ref[variant] != nil {
				F[pp.Key] = pp.Ref[variant]
			}
		}
		adm := admitted[variant]
		var done int64
		parallelDo(n, par, func(i int) {
			if stopFlag.Load() || time.Since(tH) > tier.budget {
				return
			}
			seed := deriveSeed(baseSeed, tag, uint64(i))
			spec := genHistory(seed, variant, pool, adm)
			res := c.runSpec(spec)
			v, st, err := evalHistorySafe(spec, res, F, classes)
			if err != nil {
				infraFail("history seed %d: %v (uid=%d shell=%q wrap=%v env=%v stdout=%s)", seed, err, spec.Uid, spec.Shell, spec.Wrap, spec.Env, clip(res.Proc.Stdout, 200))
			}
			atomic.AddInt64(&done, 1)
			A.Lock()
			A.evals++
			perVariant[variant]++
			if st != nil {
				if st.nontrivial && st.sig != "" && !A.sigs[st.sig] {
					A.sigs[st.sig] = true
					A.nontrivial++
				}
				for k := range st.adjPairs {
					A.adj[k] = true
				}
				for k := range st.progPairs {
					A.progPairs[variant][k] = true
				}
				for k := range st.reexecProgs {
					A.reexecProgs[variant][k] = true
				}
				for k, n := range st.probes {
					A.probes[k] += n
				}
				for k, n := range st.prefillKinds {
					A.prefillKinds[k] += n
				}
				A.execs += st.execs
				A.parses += st.parses
				A.reexec += st.reexecSameTree
				A.clock += st.clockJumps
				A.gcs += st.gcs
				A.logs += st.logSwitches
				A.sweeps += st.sweeps
				A.prefills += st.prefills
				A.simS += float64(st.simNs) / 1e9
				A.draws += st.draws
				if len(A.samples) < 3 && v == nil && st.nontrivial {
					A.samples = append(A.samples, sampleOf(spec, res))
				}
			}
			A.Unlock()
			if v != nil {
				fmu.Lock()
				foundList = append(foundList, found{spec, res, v})
				fmu.Unlock()
				firstViol.Do(func() {})
				if len(foundList) >= 4 {
					stopFlag.Store(true)
				}
			}
		})
	}
	tH = time.Now()
	runBatch("native", tier.nNative, 401) // the smaller batch first: a budget cut must not starve it
	runBatch("sim", tier.nSim, 400)
	histSecs := time.Since(tH).Seconds()
	fmt.Printf("histories: %d in %.1fs (cli phase before it ended at %.1fs)\n", A.evals, histSecs, tH.Sub(t0).Seconds())

	// Report violations found in histories: shrink the first of each class, replay, write.
	seenClass := map[string]bool{}
	sort.Slice(foundList, func(i, j int) bool { return foundList[i].spec.Seed < foundList[j].spec.Seed })
	for _, f := range foundList {
		key := f.v.Class + "/" + f.spec.Variant
		if seenClass[key] {
			continue
		}
		seenClass[key] = true
		F := map[string]*RefOutcome{}
		for _, pp := range pool {
			if pp.Ref[f.spec.Variant] != nil {
				F[pp.Key] = pp.Ref[f.spec.Variant]
			}
		}
		min, runs := f.spec, 0
		if f.spec.Variant == "sim" && os.Getenv("VERIF_NO_SHRINK") == "" {
			min, runs = c.shrinkHistory(f.spec, F, classes, f.v.Class, 400)
		}
		res := c.runSpec(min)
		v2, _, err := evalHistorySafe(min, res, F, classes)
		exact := f.spec.Variant == "sim"
		note := ""
		if err != nil || v2 == nil || v2.Class != f.v.Class {
			// the minimised script did not reproduce in a fresh process: report the original
			min, res, v2 = f.spec, f.res, f.v
			note = "minimised script did not reproduce on confirmation; original history reported"
			exact = false
		}
		refSpecs := map[string][]*RunSpec{}
		used := usedSources(&min.Script)
		for li, k := range min.ProgKeys {
			if used[li] {
				for _, pp := range pool {
					if pp.Key == k {
						refSpecs[k] = pp.RefSpecs[min.Variant]
					}
				}
			}
		}
		if exact && note == "" && os.Getenv("VERIF_NO_SHRINK") == "" { // minimise the programs too (statement lines), then confirm once more
			linesBefore := 0
			for li, s := range min.Script.Sources {
				if used[li] {
					b, _ := base64.StdEncoding.DecodeString(s)
					linesBefore += bytes.Count(b, []byte("\n")) + 1
				}
			}
			min2, pr := c.shrinkPrograms(min, F, refSpecs, v2.Class, 900)
			res2 := c.runSpec(min2)
			v3, _, err3 := evalHistorySafe(min2, res2, F, classes)
			if err3 == nil && v3 != nil && v3.Class == v2.Class {
				linesAfter := 0
				for li, s := range min2.Script.Sources {
					if used[li] {
						b, _ := base64.StdEncoding.DecodeString(s)
						linesAfter += bytes.Count(b, []byte("\n")) + 1
					}
				}
				min, res, v2 = min2, res2, v3
				runs += pr
				note = fmt.Sprintf("programs minimised from %d to %d source lines", linesBefore, linesAfter)
				// keep only the reference specs of programs still used
				keep := map[string]bool{}
				for li, k := range min.ProgKeys {
					if used[li] {
						keep[k] = true
					}
				}
				for k := range refSpecs {
					if !keep[k] {
						delete(refSpecs, k)
					}
				}
			}
		}
		report(&ReplayFile{Property: "C10", Kind: "c10-history", BaseSeed: baseSeed, Tier: tier.name, Violation: *v2, Spec: min, RefSpecs: refSpecs, Journal: res.Journal, Exact: exact,
			OpsBeforeMinimisation: len(f.spec.Script.Ops), OpsAfterMinimisation: len(min.Script.Ops), ShrinkRuns: runs, Note: note})
	}

	// Phase 3: determinism self-test of the simulator (sim variant): same seed => same journal.
	selfRuns, selfOK := 0, true
	selfDetail := []string{}
	if rep.violations == 0 {
		for s := 0; s < tier.selfSeeds; s++ {
			seed := deriveSeed(baseSeed, 400, uint64(s))
			spec := genHistory(seed, "sim", pool, admitted["sim"])
			var ref []byte
			for _, p := range tier.selfPars {
				reps := tier.selfReps
				if p == 1 && tier.name == "quick" {
					reps = 3
				}
				outs := make([][]byte, reps)
				parallelDo(reps, p, func(i int) {
					outs[i] = c.runSpec(spec).JournalRaw
				})
				selfRuns += reps
				for _, o := range outs {
					if ref == nil {
						ref = o
					}
					if !bytes.Equal(ref, o) {
						selfOK = false
					}
				}
				selfDetail = append(selfDetail, fmt.Sprintf("seed=%d parallelism=%d processes=%d ops=%d", seed, p, reps, len(spec.Script.Ops)))
			}
		}
		if !selfOK {
			infraFail("determinism self-test failed: the same seed produced different journals (the simulator is broken; no verdict about gosk)")
		}
	}

	wall := time.Since(t0).Seconds()
	// adjacency measure: ordered pairs of program classes assembled back to back
	classSet := map[string]bool{}
	for _, ix := range admitted["sim"] {
		if pool[ix].Ref["sim"].ParseClass == "ok" {
			classSet[classes[pool[ix].Key]] = true
		}
	}
	samples := A.samples
	if len(samples) == 0 {
		samples = append(samples, "no violation-free non-trivial history recorded")
	}
	origin := map[string]int{}
	for _, pp := range pool {
		origin[pp.P.Origin]++
	}
	nExecable := 0
	for _, ix := range admitted["sim"] {
		if ref := pool[ix].Ref["sim"]; ref != nil && ref.ParseClass == "ok" {
			nExecable++
		}
	}
	nRefRuns, nExtraProgs := 0, 0
	for _, pp := range pool {
		if pp.Extra {
			nExtraProgs++
		}
	}
	for _, pp := range pool {
		for _, vn := range variants {
			nRefRuns += len(pp.RefSpecs[vn])
		}
	}
	ev := &Evidence{PropertyID: "C10", Tier: tier.name, Seed: int64(baseSeed), Level: "exploration", WallS: wall, Violations: rep.violations,
		Assumptions: []string{
			"verdicts compare outputs of the same worker binary only (sim: go1.26.8 + patched runtime.rand; native: default toolchain); cross-toolchain agreement is informational",
			"seeded search: a clean batch is evidence, not proof",
			"map-order exploration in the sim variant depends on go1.26.8's runtime drawing all map entropy from runtime.rand",
			"crypto/rand is outside the entropy seam",
			"concurrent callers of frontend.Exec are outside the property",
		},
		Coverage: map[string]any{
			"evaluations":                    A.evals,
			"distinct_nontrivial":            A.nontrivial,
			"rule":                           "one evaluation = one history (script of parse/exec/prefill/clock/gc/logcfg/sweep operations over a pool of 3-8 programs) executed in its own OS process and checked op by op against fresh-process references; distinct = distinct signature (sequence of op kinds and program classes); non-trivial = at least 2 exec operations with at least one perturbation (re-used tree, prefill, clock jump, gc, logger switch, other parse) between them",
			"samples":                        samples,
			"histories_per_variant":          perVariant,
			"programs_in_pool":               len(pool),
			"program_origins":                origin,
			"programs_admitted":              map[string]int{"sim": len(admitted["sim"]), "native": len(admitted["native"])},
			"excluded_programs":              excluded,
			"fresh_process_reference_runs":   nRefRuns,
			"programs_with_single_reference": nExtraProgs,
			"cli_fresh_runs":                 cliRuns,
			"cli_disagreements":              cliDisagree,
			"cross_toolchain_output_differences_informational": crossToolchainDiff,
			"os_processes_started":                             c.procsStarted,
			"runs_per_hour":                                    int(float64(A.evals) / histSecs * 3600),
			"seeds_per_hour":                                   int(float64(A.evals) / histSecs * 3600),
			"simulated_time_s":                                 A.simS,
			"perturbations_fired":                              map[string]any{"exec": A.execs, "parse": A.parses, "tree_reexecutions": A.reexec, "clock_jumps": A.clock, "gc": A.gcs, "logger_switches": A.logs, "sweeps": A.sweeps, "prefills": A.prefills, "prefill_kinds": A.prefillKinds, "entropy_reseeds": A.execs + A.parses},
			"entropy_draws_total":                              A.draws,
			"ordered_program_pairs_covered":                    map[string]any{"sim": len(A.progPairs["sim"]), "native": len(A.progPairs["native"]), "possible_per_variant": nExecable * nExecable, "executable_programs": nExecable, "meaning": "(A, B): A was executed some time before B in one process"},
			"programs_with_a_reexecuted_tree":                  map[string]any{"sim": len(A.reexecProgs["sim"]), "native": len(A.reexecProgs["native"]), "programs": len(pool)},
			"adjacency_pairs_covered":                          len(A.adj),
			"adjacency_pairs_possible":                         len(classSet) * len(classSet),
			"probes":                                           A.probes,
			"variants":                                         variants,
			"components":                                       componentsNote,
			"determinism_selftest":                             map[string]any{"runs": selfRuns, "identical_journals": selfOK, "detail": selfDetail},
			"known_findings_matched":                           rep.known,
			"build_s":                                          b.BuildSecs,
			"toolchains":                                       []string{b.GoDefault, b.GoSim},
		}}
	writeEvidence(ev)
	fmt.Printf("C10 %s: %d histories (%d distinct non-trivial), %d execs, %d fresh refs, %d cli runs, selftest runs=%d, %.0fs; violations=%d known=%d\n",
		tier.name, A.evals, A.nontrivial, A.execs, nRefRuns, cliRuns, selfRuns, wall, rep.violations, rep.known)
	cleanupAll()
	if rep.violations > 0 {
		return 1
	}
	return 0
}

func sampleOf(spec *RunSpec, res *RunResult) any {
	var ops []string
	for _, o := range spec.Script.Ops {
		switch o.Op {
		case "parse":
			ops = append(ops, fmt.Sprintf("parse p%d->t%d ent=%d", o.P, o.T, o.Ent))
		case "exec":
			ops = append(ops, fmt.Sprintf("exec t%d->%s ent=%d", o.T, spec.Script.Paths[o.D], o.Ent))
		case "prefill":
			ops = append(ops, fmt.Sprintf("prefill %s %s len=%d", spec.Script.Paths[o.D], o.Kind, o.Len))
		case "clock":
			ops = append(ops, fmt.Sprintf("clock +%s", time.Duration(o.Ns)))
		case "logcfg":
			ops = append(ops, "logcfg "+o.Kind)
		default:
			ops = append(ops, o.Op)
		}
	}
	return map[string]any{"seed": spec.Seed, "variant": spec.Variant, "init_seed": spec.InitSeed, "env": spec.Env, "programs": spec.ProgKeys, "ops": strings.Join(ops, " ; ")}
}
