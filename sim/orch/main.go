package main

import (
	"encoding/json"
	"fmt"
	"os"
)

func usage() {
	fmt.Fprintf(os.Stderr, "usage: verifsim <C10|C19> <quick|thorough> | replay <file> | buildtest\n")
	os.Exit(2)
}

func main() {
	if len(os.Args) < 2 {
		usage()
	}
	switch os.Args[1] {
	case "buildtest":
		b := doBuild(true)
		fmt.Printf("%+v\n", *b)
		if len(os.Args) > 2 && os.Args[2] == "keep" {
			cleanups = nil
		}
		cleanupAll()
	case "dumpprogs":
		os.MkdirAll("/tmp/gp", 0755)
		dumpProgs(20)
	case "dumppool":
		os.MkdirAll("/tmp/gp", 0755)
		dumpPool(30)
	case "dumpsrc": // print the materialised source and comment-free form of a C19 replay file
		raw, _ := os.ReadFile(os.Args[2])
		var rf ReplayFile
		json.Unmarshal(raw, &rf)
		src, plain := rf.Scenario.materialise()
		os.Stdout.Write(src)
		fmt.Println("-----plain-----")
		os.Stdout.Write(plain)
	case "replay":
		if len(os.Args) < 3 {
			usage()
		}
		os.Exit(runReplay(os.Args[2]))
	case "C10":
		if len(os.Args) < 3 {
			usage()
		}
		os.Exit(runC10(os.Args[2]))
	case "C19":
		if len(os.Args) < 3 {
			usage()
		}
		os.Exit(runC19(os.Args[2]))
	default:
		usage()
	}
}
