package main

import (
	"fmt"
	"os"
)

func usage() {
	fmt.Fprintf(os.Stderr, "usage: verifsim <C10|C19> <quick|thorough> | replay <file> | buildtest\n")
	os.Exit(2)
}

func main() {
	if len(os.Args) < 2 {
		usage()
	}
	switch os.Args[1] {
	case "buildtest":
		b := doBuild(true)
		fmt.Printf("%+v\n", *b)
		if len(os.Args) > 2 && os.Args[2] == "keep" {
			cleanups = nil
		}
		cleanupAll()
	case "dumpprogs":
		os.MkdirAll("/tmp/gp", 0755)
		dumpProgs(20)
	case "replay":
		if len(os.Args) < 3 {
			usage()
		}
		os.Exit(runReplay(os.Args[2]))
	case "C10":
		if len(os.Args) < 3 {
			usage()
		}
		os.Exit(runC10(os.Args[2]))
	case "C19":
		if len(os.Args) < 3 {
			usage()
		}
		os.Exit(runC19(os.Args[2]))
	default:
		usage()
	}
}
