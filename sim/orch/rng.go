package main

// Own small PRNG so that the meaning of a seed never depends on the Go release.

func splitmix64(x uint64) uint64 {
	x += 0x9E3779B97F4A7C15
	z := x
	z = (z ^ (z >> 30)) * 0xBF58476D1CE4E5B9
	z = (z ^ (z >> 27)) * 0x94D049BB133111EB
	return z ^ (z >> 31)
}

// deriveSeed gives the seed of run i of a batch (and of sub-streams via different tags).
func deriveSeed(base uint64, tag uint64, i uint64) uint64 {
	return splitmix64(splitmix64(base^0x5eed5eed5eed5eed) ^ splitmix64(tag*0x9E3779B97F4A7C15+i))
}

// RNG is xoshiro256** seeded through splitmix64.
type RNG struct{ s [4]uint64 }

func NewRNG(seed uint64) *RNG {
	r := &RNG{}
	x := seed
	for i := range r.s {
		x += 0x9E3779B97F4A7C15
		r.s[i] = splitmix64(x)
	}
	return r
}

func rotl(x uint64, k uint) uint64 { return (x << k) | (x >> (64 - k)) }

func (r *RNG) U64() uint64 {
	res := rotl(r.s[1]*5, 7) * 9
	t := r.s[1] << 17
	r.s[2] ^= r.s[0]
	r.s[3] ^= r.s[1]
	r.s[1] ^= r.s[2]
	r.s[0] ^= r.s[3]
	r.s[2] ^= t
	r.s[3] = rotl(r.s[3], 45)
	return res
}

// Intn returns a value in [0,n).
func (r *RNG) Intn(n int) int {
	if n <= 0 {
		return 0
	}
	return int(r.U64() % uint64(n))
}

// Range returns a value in [lo,hi].
func (r *RNG) Range(lo, hi int) int { return lo + r.Intn(hi-lo+1) }

func (r *RNG) Chance(num, den int) bool { return r.Intn(den) < num }

func (r *RNG) Bytes(n int) []byte {
	b := make([]byte, n)
	for i := 0; i < n; i += 8 {
		v := r.U64()
		for k := 0; k < 8 && i+k < n; k++ {
			b[i+k] = byte(v >> (8 * k))
		}
	}
	return b
}

func pick[T any](r *RNG, xs []T) T { return xs[r.Intn(len(xs))] }

// weighted picks an index with probability proportional to w.
func (r *RNG) weighted(w []int) int {
	t := 0
	for _, x := range w {
		t += x
	}
	if t == 0 {
		return 0
	}
	v := r.Intn(t)
	for i, x := range w {
		if v < x {
			return i
		}
		v -= x
	}
	return len(w) - 1
}
