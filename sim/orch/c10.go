package main

import (
	"bytes"
	"crypto/sha256"
	"encoding/base64"
	"encoding/hex"
	"encoding/json"
	"fmt"
	"os"
	"path/filepath"
	"sort"
	"strings"
	"sync"
	"time"
)

// ---------- script / journal (mirrors sim/worker/worker_test.go) ----------

type Op struct {
	Op     string `json:"op"`
	P      int    `json:"p,omitempty"`
	T      int    `json:"t,omitempty"`
	D      int    `json:"d,omitempty"`
	Ent    uint64 `json:"ent,omitempty"`
	Ns     int64  `json:"ns,omitempty"`
	Kind   string `json:"kind,omitempty"`
	Data   string `json:"data,omitempty"`
	From   int    `json:"from,omitempty"`
	Cycles int    `json:"cycles,omitempty"`
	Len    int    `json:"len,omitempty"`
}

type Script struct {
	Sources []string `json:"sources"`
	Paths   []string `json:"paths"`
	Ops     []Op     `json:"ops"`
	Sim     bool     `json:"sim"`
	Procs   int      `json:"procs,omitempty"`
}

type JLine struct {
	I     int      `json:"i"`
	Op    string   `json:"op"`
	Begin bool     `json:"begin,omitempty"`
	Out   string   `json:"out,omitempty"`
	Msg   string   `json:"msg,omitempty"`
	Sha   string   `json:"sha,omitempty"`
	Len   int      `json:"len"`
	Draws uint64   `json:"draws,omitempty"`
	Now   int64    `json:"now,omitempty"`
	Sweep []string `json:"sweep,omitempty"`
	End   bool     `json:"end,omitempty"`
	McSha string   `json:"mc_sha,omitempty"`
	McLen int      `json:"mc_len,omitempty"`
}

// RunSpec is one simulated run: a script plus the process environment, all explicit.
type RunSpec struct {
	Variant  string   `json:"variant"` // sim | native
	Seed     uint64   `json:"seed"`    // the run seed everything here was derived from
	InitSeed uint64   `json:"init_seed"`
	Env      []string `json:"env"`
	AbsPaths bool     `json:"abs_paths,omitempty"`     // destination paths made absolute (inside the run dir)
	Uid      int      `json:"uid,omitempty"`           // run the worker as this user (setpriv)
	Shell    string   `json:"shell_prelude,omitempty"` // sh -c prelude run before exec of the worker: umask, closed stdout, descriptor limit
	Wrap     []string `json:"wrap,omitempty"`          // command prefix: taskset (runtime.NumCPU), unshare --uts + hostname
	Script   Script   `json:"script"`
	ProgKeys []string `json:"prog_keys"` // content hash of each script source
}

type RunResult struct {
	Journal    []JLine
	JournalRaw []byte
	Proc       ProcResult
	Ended      bool
}

type Violation struct {
	Property string `json:"property"`
	Class    string `json:"class"`
	Op       int    `json:"op"`
	ProgKey  string `json:"prog_key,omitempty"`
	Detail   string `json:"detail"`
	Expected string `json:"expected,omitempty"`
	Observed string `json:"observed,omitempty"`
}

func (v *Violation) Signature() string {
	return v.Property + "/" + v.Class
}

func shaHex(b []byte) string {
	s := sha256.Sum256(b)
	return hex.EncodeToString(s[:])
}

func genGarbage(seed uint64, n int) []byte {
	b := make([]byte, n)
	x := seed
	for k := range b {
		if k%8 == 0 {
			x += 0x9E3779B97F4A7C15
		}
		z := x
		z = (z ^ (z >> 30)) * 0xBF58476D1CE4E5B9
		z = (z ^ (z >> 27)) * 0x94D049BB133111EB
		z ^= z >> 31
		b[k] = byte(z >> (8 * uint(k%8)))
	}
	return b
}

// ---------- running a spec ----------

type simCtx struct {
	b       *Build
	runRoot string
	mu      sync.Mutex
	nextDir int
	// counters
	procsStarted int64
}

func (c *simCtx) newRunDir() string {
	c.mu.Lock()
	c.nextDir++
	n := c.nextDir
	c.procsStarted++
	c.mu.Unlock()
	d := filepath.Join(c.runRoot, fmt.Sprintf("r%07d", n))
	if err := os.MkdirAll(d, 0755); err != nil {
		infraFail("mkdir run dir: %v", err)
	}
	return d
}

const workerWatchdog = 180 * time.Second

func (c *simCtx) runSpec(spec *RunSpec) *RunResult { return c.runSpecKeep(spec, nil) }

// ---------- fresh-process references: the function F of the model ----------

type RefOutcome struct {
	ParseClass string `json:"parse"`          // ok | parse_error | panic | died
	ExecClass  string `json:"exec,omitempty"` // ok | panic | died | (empty when parse failed)
	Sha        string `json:"sha,omitempty"`
	Len        int    `json:"len"`
	ExitCode   int    `json:"exit_code,omitempty"`
}

func (o RefOutcome) String() string {
	return fmt.Sprintf("parse=%s exec=%s sha=%.16s len=%d", o.ParseClass, o.ExecClass, o.Sha, o.Len)
}

func (o RefOutcome) Admitted() bool {
	return o.ParseClass == "parse_error" || (o.ParseClass == "ok" && (o.ExecClass == "ok" || o.ExecClass == "panic"))
}

type PoolProg struct {
	P        *Program
	Key      string
	Src      []byte
	TwinOf   int                    // index in pool or -1
	Ref      map[string]*RefOutcome // per variant
	RefSpecs map[string][]*RunSpec
	Bytes    map[string][]byte // reference output bytes per variant (may be nil when large)
	ExecMs   float64
	// Extra programs widen the set of instruction forms that meet in one process. They take their
	// reference from one fresh process per variant (no I2 sampling, no CLI runs): a mismatch in a
	// history is still a C10 violation, whichever of the two runs was the odd one.
	Extra bool
}

var destNames = []string{"o.bin", "out.obj", "a", "x.img", "naskfunc.obj", "ipl.bin", "very_long_destination_file_name.output", "b.o"}
var tzs = []string{"UTC", "Asia/Tokyo", "America/New_York", "Pacific/Kiritimati", ""}
var langs = []string{"C", "ja_JP.UTF-8", "en_US.UTF-8", "", "ja_JP.SJIS", "ja_JP.eucJP", "de_DE.ISO-8859-1", "tr_TR.UTF-8"}

// process wrappers: the number of CPUs the runtime sees, the host name
var procWraps = [][]string{nil, nil, nil, nil, {"taskset", "-c", "0"}, {"taskset", "-c", "0-2"}, {"unshare", "--uts", "sh", "-c", `hostname build7; exec "$@"`, "sh"}, {"unshare", "--uts", "sh", "-c", `hostname a-very-long-host-name.example.org; exec "$@"`, "sh"}}

var shellPreludes = []string{"", "", "", "umask 077", "umask 000", "umask 027", "exec >&-", "exec 2>&-", "exec </dev/null >/dev/null", "ulimit -n 64", "ulimit -s 65536", "cd . "}

func drawProcEnv(r *RNG, native bool) []string {
	var env []string
	if tz := pick(r, tzs); tz != "" {
		env = append(env, "TZ="+tz)
	}
	if l := pick(r, langs); l != "" {
		env = append(env, "LANG="+l)
	}
	env = append(env, "HOME="+pick(r, []string{"/root", "/nonexistent", "/tmp"}))
	if r.Chance(1, 2) {
		env = append(env, "USER="+pick(r, []string{"root", "nobody", "kawai"}), "LOGNAME="+pick(r, []string{"root", "nobody"}))
	}
	if r.Chance(1, 2) {
		env = append(env, "TMPDIR="+pick(r, []string{"/tmp", "/dev/shm", "/nonexistent-tmp"}))
	}
	if r.Chance(1, 3) {
		env = append(env, "SOURCE_DATE_EPOCH="+pick(r, []string{"0", "1", "1700000000", "4102444800"}))
	}
	if r.Chance(1, 3) {
		env = append(env, pick(r, []string{"LC_ALL", "LC_CTYPE", "LC_MESSAGES", "LANGUAGE"})+"="+pick(r, []string{"C", "ja_JP.SJIS", "POSIX", "ja_JP.eucJP", "ja_JP.UTF-8", "tr_TR.UTF-8"}))
	}
	if r.Chance(1, 3) {
		env = append(env, "HOSTNAME="+pick(r, []string{"build1", "localhost"}), "TERM="+pick(r, []string{"dumb", "xterm-256color"}))
	}
	if r.Chance(1, 4) {
		env = append(env, "NO_COLOR=1")
	}
	if native {
		env = append(env, "GOGC="+pick(r, []string{"100", "10", "400", "off"}))
		env = append(env, "GOMAXPROCS="+pick(r, []string{"1", "4", "16"}))
	}
	return env
}

func refSpec(variant string, pp *PoolProg, seed uint64) *RunSpec {
	r := NewRNG(seed)
	spec := &RunSpec{Variant: variant, Seed: seed, InitSeed: r.U64() % 1000000007, ProgKeys: []string{pp.Key}}
	spec.Env = drawProcEnv(r, variant == "native")
	spec.AbsPaths = r.Chance(1, 2)
	if r.Chance(1, 4) {
		spec.Uid = 65534
	}
	spec.Shell = pick(r, shellPreludes)
	spec.Wrap = pick(r, procWraps)
	sc := Script{Sources: []string{base64.StdEncoding.EncodeToString(pp.Src)}, Paths: []string{pick(r, destNames)}, Sim: variant == "sim"}
	if variant == "sim" {
		sc.Ops = append(sc.Ops, Op{Op: "clock", Ns: int64(r.U64() % uint64(200*365*24*time.Hour))})
	}
	sc.Ops = append(sc.Ops, Op{Op: "logcfg", Kind: pick(r, []string{"discard", "std", "info", "debug"})})
	switch r.Intn(8) {
	case 0: // destination is a symbolic link to a (longer) stale file
		sc.Paths = append(sc.Paths, "link_target.bin")
		sc.Ops = append(sc.Ops, Op{Op: "prefill", D: 1, Kind: "gen", Len: 5000, Ent: r.U64()}, Op{Op: "prefill", D: 0, Kind: "symlink", From: 1})
	case 1: // destination has a second hard link
		sc.Paths = append(sc.Paths, "other_name.bin")
		sc.Ops = append(sc.Ops, Op{Op: "prefill", D: 1, Kind: "gen", Len: 300, Ent: r.U64()}, Op{Op: "prefill", D: 0, Kind: "hardlink", From: 1})
	case 2: // destination exists without write permission for group/others, or read-only for a privileged caller
		sc.Ops = append(sc.Ops, Op{Op: "prefill", D: 0, Kind: "gen", Len: 100, Ent: r.U64()})
	}
	sc.Ops = append(sc.Ops, Op{Op: "parse", P: 0, T: 0, Ent: r.U64()})
	sc.Ops = append(sc.Ops, Op{Op: "exec", T: 0, D: 0, Ent: r.U64()})
	spec.Script = sc
	return spec
}

func refOutcomeOf(res *RunResult) (RefOutcome, []JLine) {
	var o RefOutcome
	var pj, ej *JLine
	for i := range res.Journal {
		j := &res.Journal[i]
		if j.Begin {
			continue
		}
		if j.Op == "parse" {
			pj = j
		}
		if j.Op == "exec" {
			ej = j
		}
	}
	if pj == nil {
		o.ParseClass, o.ExitCode = "died", res.Proc.Exit
		return o, res.Journal
	}
	o.ParseClass = pj.Out
	if pj.Out != "ok" {
		return o, res.Journal
	}
	if ej == nil {
		o.ExecClass, o.ExitCode = "died", res.Proc.Exit
		return o, res.Journal
	}
	o.ExecClass, o.Sha, o.Len = ej.Out, ej.Sha, ej.Len
	return o, res.Journal
}

// ---------- the model: evaluate one history against F ----------

type modelErr string

func (m modelErr) Error() string { return string(m) }

type fileState struct {
	known  bool
	absent bool
	sha    string
	n      int
}

func (f fileState) String() string {
	if !f.known {
		return "unknown"
	}
	if f.absent {
		return "absent"
	}
	return fmt.Sprintf("%s:%d", f.sha, f.n)
}

type histStats struct {
	execs, parses, reexecSameTree, prefills, clockJumps, gcs, logSwitches, sweeps int
	prefillKinds                                                                  map[string]int
	simNs                                                                         int64
	draws                                                                         uint64
	adjPairs                                                                      map[string]bool
	progPairs                                                                     map[[2]string]bool // (A, B): A executed some time before B in this process
	reexecProgs                                                                   map[string]bool    // programs whose tree was executed more than once
	probes                                                                        map[string]int
	sig                                                                           string
	nontrivial                                                                    bool
}

// evalHistory replays the script in the model and compares every journal entry. F maps
// program key -> reference outcome for this variant.
func evalHistory(spec *RunSpec, res *RunResult, F map[string]*RefOutcome, classes map[string]string) (*Violation, *histStats) {
	st := &histStats{prefillKinds: map[string]int{}, adjPairs: map[string]bool{}, probes: map[string]int{}, progPairs: map[[2]string]bool{}, reexecProgs: map[string]bool{}}
	execdBefore := map[string]bool{}
	sc := &spec.Script
	byOp := map[int]*JLine{}
	for i := range res.Journal {
		j := &res.Journal[i]
		if !j.Begin && !j.End {
			byOp[j.I] = j
		}
	}
	trees := map[int]string{}  // slot -> prog key
	treeExecs := map[int]int{} // slot -> times this tree object has been executed
	files := make([]fileState, len(sc.Paths))
	for i := range files {
		files[i] = fileState{known: true, absent: true}
	}
	alias := map[int]int{} // path index -> path index it is linked to
	lastExecClass := ""
	lastExecKey := ""
	perturbSinceExec := false
	gcSinceExec := false
	var sig strings.Builder
	for i, op := range sc.Ops {
		j := byOp[i]
		if j == nil {
			if op.Op == "parse" || op.Op == "exec" {
				key := ""
				if op.Op == "parse" {
					key = spec.ProgKeys[op.P]
				} else {
					key = trees[op.T]
				}
				return &Violation{Property: "C10", Class: "I5-worker-died", Op: i, ProgKey: key,
					Detail:   fmt.Sprintf("worker process ended (exit %d %s) during %s of a program that assembles normally in a fresh process; stdout: %s", res.Proc.Exit, res.Proc.Signal, op.Op, clip(res.Proc.Stdout, 200)),
					Expected: "operation returns", Observed: fmt.Sprintf("exit %d", res.Proc.Exit)}, st
			}
			panic(modelErr(fmt.Sprintf("journal has no entry for op %d (%s); exit=%d stderr=%s", i, op.Op, res.Proc.Exit, clip(res.Proc.Stderr, 300))))
		}
		sig.WriteString(op.Op[:2])
		switch op.Op {
		case "parse":
			st.parses++
			key := spec.ProgKeys[op.P]
			ref := F[key]
			st.draws += j.Draws
			sig.WriteString(classes[key])
			if j.Out != ref.ParseClass {
				return &Violation{Property: "C10", Class: "I4-parse-outcome-depends-on-history", Op: i, ProgKey: key,
					Detail:   "parse outcome class differs from the fresh-process outcome for the same source: " + j.Msg,
					Expected: ref.ParseClass, Observed: j.Out}, st
			}
			if j.Out == "ok" {
				trees[op.T] = key
				treeExecs[op.T] = 0
			} else {
				delete(trees, op.T)
				delete(treeExecs, op.T)
			}
			perturbSinceExec = true
		case "exec":
			key, have := trees[op.T]
			if !have {
				if j.Out != "no_tree" {
					panic(modelErr(fmt.Sprintf("model/worker disagree on tree slot %d at op %d", op.T, i)))
				}
				continue
			}
			st.execs++
			st.draws += j.Draws
			ref := F[key]
			cls := classes[key]
			sig.WriteString(cls)
			for a := range execdBefore {
				st.progPairs[[2]string{a, key}] = true
			}
			execdBefore[key] = true
			if treeExecs[op.T] > 0 {
				st.reexecProgs[key] = true
				st.reexecSameTree++
				perturbSinceExec = true
				if treeExecs[op.T] >= 2 {
					st.probes["same_tree_executed_3x"]++
				}
			}
			treeExecs[op.T]++
			if lastExecClass != "" {
				st.adjPairs[lastExecClass+">"+cls] = true
				if lastExecKey == key && gcSinceExec {
					st.probes["gc_between_same_program"]++
				}
			}
			if st.execs >= 2 && perturbSinceExec {
				st.nontrivial = true
			}
			before := files[op.D]
			if before.known && !before.absent && before.n > ref.Len && !strings.Contains(cls, "C") {
				st.probes["longer_prefill_then_flat"]++
			}
			obs := fmt.Sprintf("%s sha=%s len=%d", j.Out, j.Sha, j.Len)
			exp := fmt.Sprintf("%s sha=%s len=%d", ref.ExecClass, ref.Sha, ref.Len)
			if j.Out != ref.ExecClass || j.Sha != ref.Sha || j.Len != ref.Len {
				return &Violation{Property: "C10", Class: "I1-output-depends-on-history", Op: i, ProgKey: key,
					Detail:   fmt.Sprintf("exec #%d of the history produced output different from a fresh process for the same source (destination held %s before) %s", st.execs, before, j.Msg),
					Expected: exp, Observed: obs}, st
			}
			files[op.D] = fileState{known: true, sha: j.Sha, n: j.Len}
			if a, ok := alias[op.D]; ok {
				files[a] = files[op.D] // the image landed in the linked file
			}
			lastExecClass, lastExecKey = cls, key
			perturbSinceExec, gcSinceExec = false, false
		case "prefill":
			st.prefills++
			st.prefillKinds[op.Kind]++
			perturbSinceExec = true
			if j.Out != "ok" {
				panic(modelErr(fmt.Sprintf("prefill failed in worker: %s", j.Msg)))
			}
			switch op.Kind {
			case "absent":
				files[op.D] = fileState{known: true, absent: true}
			case "data":
				b, _ := base64.StdEncoding.DecodeString(op.Data)
				files[op.D] = fileState{known: true, sha: shaHex(b), n: len(b)}
			case "gen":
				b := genGarbage(op.Ent, op.Len)
				files[op.D] = fileState{known: true, sha: shaHex(b), n: len(b)}
			case "symlink", "hardlink": // D now names the same file as From
				files[op.D] = files[op.From]
				alias[op.D] = op.From
			case "copy":
				files[op.D] = files[op.From]
				if files[op.From].absent {
					panic(modelErr(fmt.Sprintf("generator produced a copy-prefill from an absent path")))
				}
			}
		case "clock":
			st.clockJumps++
			st.simNs += op.Ns
			perturbSinceExec = true
		case "gc":
			st.gcs++
			perturbSinceExec, gcSinceExec = true, true
		case "logcfg":
			st.logSwitches++
			perturbSinceExec = true
		case "sweep":
			st.sweeps++
			for d, got := range j.Sweep {
				want := files[d].String()
				if got != want {
					return &Violation{Property: "C10", Class: "I3-earlier-output-changed-later", Op: i,
						Detail:   fmt.Sprintf("path %d (%s) no longer holds what the last operation on it left there", d, sc.Paths[d]),
						Expected: want, Observed: got}, st
				}
			}
		}
	}
	if !res.Ended {
		panic(modelErr(fmt.Sprintf("worker did not reach end of script although all ops have journal entries; exit=%d", res.Proc.Exit)))
	}
	st.sig = sig.String()
	return nil, st
}

// ---------- history generator ----------

type histKnobs struct {
	wParse, wExec, wReexec, wClock, wGc, wLog, wSweep int
	pPrefill                                          int // percent
	clockScale                                        int
	nops                                              int
}

// longHistories (thorough tier): a share of histories is 120-400 operations long over small
// programs, for leaks that need many assemblies to show (cache eviction, counters, growth).
var longHistories = false

func genHistory(seed uint64, variant string, pool []*PoolProg, admitted []int) *RunSpec {
	r := NewRNG(seed)
	long := (longHistories && r.Chance(1, 8)) || (!longHistories && r.Chance(1, 4)) || os.Getenv("VERIF_C10_ALL_LONG") != ""
	// a tour executes (almost) every admitted program once in one process, in a random order: after a
	// handful of tours every ordered pair (A some time before B) has been seen in both orders
	tour := long && r.Chance(1, 2)
	if long {
		var small []int
		for _, ix := range admitted {
			if (len(pool[ix].Src) < 6000 && (pool[ix].Ref[variant] == nil || pool[ix].Ref[variant].Len < 65536)) || (tour && len(pool[ix].Src) < 60000) {
				small = append(small, ix)
			}
		}
		if len(small) >= 3 {
			admitted = small
		} else {
			long = false
		}
	}
	sim := variant == "sim"
	spec := &RunSpec{Variant: variant, Seed: seed, InitSeed: r.U64() % 1000000007}
	spec.Env = drawProcEnv(r, !sim)
	spec.AbsPaths = r.Chance(1, 4)
	if r.Chance(1, 8) {
		spec.Uid = 65534
	}
	if r.Chance(1, 3) {
		spec.Shell = pick(r, shellPreludes)
	}
	if r.Chance(1, 3) {
		spec.Wrap = pick(r, procWraps)
	}
	// program selection: 3..8, twins together when possible
	want := r.Range(3, 8)
	if long {
		want = r.Range(20, 48) // many different programs: many distinct instruction forms in one process
		if tour {
			want = r.Range(100, 200)
		}
	}
	if want > len(admitted) {
		want = len(admitted)
	}
	chosen := []int{}
	inSel := map[int]bool{}
	add := func(ix int) {
		if !inSel[ix] && len(chosen) < want {
			inSel[ix] = true
			chosen = append(chosen, ix)
		}
	}
	isAdm := map[int]bool{}
	for _, a := range admitted {
		isAdm[a] = true
	}
	for len(chosen) < want {
		ix := admitted[r.Intn(len(admitted))]
		add(ix)
		if t := pool[ix].TwinOf; t >= 0 && isAdm[t] && r.Chance(3, 4) {
			add(t)
		}
	}
	var okProgs []int // script-local indices of programs that parse and can be executed
	sc := Script{Sim: sim}
	for li, ix := range chosen {
		pp := pool[ix]
		sc.Sources = append(sc.Sources, base64.StdEncoding.EncodeToString(pp.Src))
		spec.ProgKeys = append(spec.ProgKeys, pp.Key)
		if pp.Ref[variant].ParseClass == "ok" {
			okProgs = append(okProgs, li)
		}
	}
	if len(okProgs) == 0 {
		// make sure something executable is there
		for _, ix := range admitted {
			if pool[ix].Ref[variant].ParseClass == "ok" {
				sc.Sources = append(sc.Sources, base64.StdEncoding.EncodeToString(pool[ix].Src))
				spec.ProgKeys = append(spec.ProgKeys, pool[ix].Key)
				chosen = append(chosen, ix)
				okProgs = append(okProgs, len(sc.Sources)-1)
				break
			}
		}
	}
	if !sim {
		sc.Procs = pick(r, []int{1, 4, 16})
	}
	npaths := r.Range(1, 4)
	perm := r.Intn(len(destNames))
	for i := 0; i < npaths; i++ {
		sc.Paths = append(sc.Paths, destNames[(perm+i)%len(destNames)])
	}
	ws := []int{0, 1, 2, 4}
	k := histKnobs{wParse: pick(r, ws) + 1, wExec: pick(r, ws) + 1, wReexec: pick(r, ws), wClock: pick(r, ws), wGc: pick(r, ws), wLog: pick(r, ws), wSweep: pick(r, ws),
		pPrefill: pick(r, []int{0, 30, 60, 90}), clockScale: r.Intn(5), nops: pick(r, []int{4, 8, 15, 25, 40})}
	if long {
		k.nops = pick(r, []int{200, 400, 800})
		if !longHistories {
			k.nops = pick(r, []int{140, 220})
		}
		k.wParse += 2
		k.wExec, k.wReexec = k.wExec+2, k.wReexec+1
	}
	if !sim {
		k.wClock = 0
	}
	nslots := r.Range(1, 4)
	slotProg := map[int]int{} // slot -> script-local program index (only ok trees)
	fileLen := make([]int, npaths)
	filePresent := make([]bool, npaths)
	allocOps := 0
	var simTotal int64
	emitExec := func(slot int) {
		li := slotProg[slot]
		pp := pool[chosen[li]]
		ref := pp.Ref[variant]
		d := r.Intn(npaths)
		if r.Intn(100) < k.pPrefill {
			var po Op
			switch r.Intn(8) {
			case 0:
				po = Op{Op: "prefill", D: d, Kind: "absent"}
				filePresent[d] = false
			case 1:
				po = Op{Op: "prefill", D: d, Kind: "data", Data: ""} // empty file
				fileLen[d], filePresent[d] = 0, true
			case 2: // shorter garbage
				n := 0
				if ref.Len > 1 {
					n = r.Range(1, ref.Len-1)
				}
				po = Op{Op: "prefill", D: d, Kind: "gen", Len: n, Ent: r.U64()}
				fileLen[d], filePresent[d] = n, true
			case 3: // equal length garbage
				po = Op{Op: "prefill", D: d, Kind: "gen", Len: ref.Len, Ent: r.U64()}
				fileLen[d], filePresent[d] = ref.Len, true
			case 4, 5: // longer garbage
				n := ref.Len + pick(r, []int{1, 2, 17, 512, 4096, 70000})
				po = Op{Op: "prefill", D: d, Kind: "gen", Len: n, Ent: r.U64()}
				fileLen[d], filePresent[d] = n, true
			case 6: // a previous output of another (or the same) program, from the reference bytes
				other := pool[chosen[r.Intn(len(chosen))]]
				if b := other.Bytes[variant]; b != nil && len(b) <= 1<<18 {
					po = Op{Op: "prefill", D: d, Kind: "data", Data: base64.StdEncoding.EncodeToString(b)}
					fileLen[d], filePresent[d] = len(b), true
				} else {
					n := ref.Len + 33
					po = Op{Op: "prefill", D: d, Kind: "gen", Len: n, Ent: r.U64()}
					fileLen[d], filePresent[d] = n, true
				}
			default: // read-back of an earlier exec in this history
				from := -1
				for t := 0; t < npaths; t++ {
					c := (d + 1 + t) % npaths
					if filePresent[c] && c != d {
						from = c
						break
					}
				}
				if from >= 0 {
					po = Op{Op: "prefill", D: d, Kind: "copy", From: from}
					fileLen[d], filePresent[d] = fileLen[from], true
				} else {
					n := ref.Len + 7
					po = Op{Op: "prefill", D: d, Kind: "gen", Len: n, Ent: r.U64()}
					fileLen[d], filePresent[d] = n, true
				}
			}
			sc.Ops = append(sc.Ops, po)
		}
		sc.Ops = append(sc.Ops, Op{Op: "exec", T: slot, D: d, Ent: r.U64()})
		fileLen[d], filePresent[d] = ref.Len, true
		allocOps++
	}
	emitParse := func(li int, slot int) {
		po := Op{Op: "parse", P: li, T: slot, Ent: r.U64()}
		if r.Chance(1, 5) {
			po.Kind = pick(r, []string{"memoize", "filename", "stats"})
		}
		sc.Ops = append(sc.Ops, po)
		if pool[chosen[li]].Ref[variant].ParseClass == "ok" {
			slotProg[slot] = li
		} else {
			delete(slotProg, slot)
		}
		allocOps++
	}
	anySlot := func() (int, bool) {
		var ss []int
		for s := range slotProg {
			ss = append(ss, s)
		}
		if len(ss) == 0 {
			return 0, false
		}
		sort.Ints(ss)
		return ss[r.Intn(len(ss))], true
	}
	if tour {
		k.nops = 0
		for _, li := range okProgs {
			if sim && allocOps >= 6 {
				sc.Ops = append(sc.Ops, Op{Op: "gc", Cycles: 2})
				allocOps = 0
			}
			slot := r.Intn(nslots)
			emitParse(li, slot)
			emitExec(slot)
			if r.Chance(1, 4) {
				emitExec(slot) // the same tree once more
			}
			switch r.Intn(12) {
			case 0:
				sc.Ops = append(sc.Ops, Op{Op: "gc", Cycles: r.Range(1, 3)})
				allocOps = 0
			case 1:
				sc.Ops = append(sc.Ops, Op{Op: "logcfg", Kind: pick(r, []string{"discard", "std", "info", "debug"})})
			case 2:
				if sim {
					ns := int64(r.U64()%uint64(24*time.Hour)) + 1
					simTotal += ns
					sc.Ops = append(sc.Ops, Op{Op: "clock", Ns: ns})
				}
			case 3:
				if s, ok := anySlot(); ok {
					emitExec(s) // an older tree again
				}
			}
		}
	}
	for len(sc.Ops) < k.nops {
		if sim && allocOps >= 6 {
			sc.Ops = append(sc.Ops, Op{Op: "gc", Cycles: 2})
			allocOps = 0
			continue
		}
		switch r.weighted([]int{k.wParse, k.wExec, k.wReexec, k.wClock, k.wGc, k.wLog, k.wSweep}) {
		case 0:
			emitParse(r.Intn(len(sc.Sources)), r.Intn(nslots))
		case 1: // parse a fresh tree of an executable program and execute it
			slot := r.Intn(nslots)
			emitParse(okProgs[r.Intn(len(okProgs))], slot)
			emitExec(slot)
		case 2: // execute an already parsed (possibly already executed) tree
			if s, ok := anySlot(); ok {
				emitExec(s)
			} else {
				slot := r.Intn(nslots)
				emitParse(okProgs[r.Intn(len(okProgs))], slot)
				emitExec(slot)
			}
		case 3:
			scales := []int64{int64(time.Millisecond), int64(time.Second), int64(24 * time.Hour), int64(365 * 24 * time.Hour), int64(10 * 365 * 24 * time.Hour)}
			ns := int64(r.U64()%uint64(scales[k.clockScale])) + 1
			if simTotal+ns < int64(150*365*24*time.Hour) {
				simTotal += ns
				sc.Ops = append(sc.Ops, Op{Op: "clock", Ns: ns})
			}
		case 4:
			sc.Ops = append(sc.Ops, Op{Op: "gc", Cycles: r.Range(1, 3)})
			allocOps = 0
		case 5:
			sc.Ops = append(sc.Ops, Op{Op: "logcfg", Kind: pick(r, []string{"discard", "std", "info", "debug"})})
		case 6:
			sc.Ops = append(sc.Ops, Op{Op: "sweep"})
		}
	}
	sc.Ops = append(sc.Ops, Op{Op: "sweep"})
	spec.Script = sc
	return spec
}

// ---------- pool construction ----------

func mutateSource(r *RNG, src []byte) []byte {
	// token-level damage for programs that must fail to parse the same way everywhere
	lines := strings.Split(string(src), "\n")
	if len(lines) == 0 {
		return []byte("[")
	}
	i := r.Intn(len(lines))
	switch r.Intn(4) {
	case 0:
		lines[i] = lines[i] + " ,,"
	case 1:
		lines[i] = "\tMOV\t[,AX"
	case 2:
		lines[i] = "\"unterminated"
	default:
		lines[i] = "\tDB\t1 2 3 ]"
	}
	return []byte(strings.Join(lines, "\n"))
}

func buildPool(baseSeed uint64, nGen, nExtra int, corpusDir string) []*PoolProg {
	var pool []*PoolProg
	seen := map[string]bool{}
	add := func(p *Program, twinOf int) int {
		src := p.Source()
		key := shaHex(src)[:16]
		if seen[key] {
			return -1
		}
		seen[key] = true
		pool = append(pool, &PoolProg{P: p, Key: key, Src: src, TwinOf: twinOf, Ref: map[string]*RefOutcome{}, RefSpecs: map[string][]*RunSpec{}, Bytes: map[string][]byte{}})
		return len(pool) - 1
	}
	for _, p := range loadCorpus(corpusDir) {
		add(p, -1)
	}
	r := NewRNG(deriveSeed(baseSeed, 101, 0))
	// one program per rare construct, so that every pool contains every construct at least once
	for fi, f := range programFeatures {
		forceFeature = f
		ps := genProgram(r, fmt.Sprintf("feat_%s", f), f == "edit_twin" || r.Chance(1, 3), true)
		forceFeature = ""
		a := add(ps[0], -1)
		if len(ps) > 1 && a >= 0 {
			if b := add(ps[1], a); b >= 0 {
				pool[a].TwinOf = b
			}
		}
		_ = fi
	}
	for i := 0; i < nGen; i++ {
		ps := genProgram(r, fmt.Sprintf("gen%04d", i), r.Chance(2, 3), true)
		a := add(ps[0], -1)
		if len(ps) > 1 && a >= 0 {
			b := add(ps[1], a)
			if b >= 0 {
				pool[a].TwinOf = b
			}
		}
		if r.Chance(1, 8) {
			bad := &Program{Name: fmt.Sprintf("bad%04d", i), Raw: mutateSource(r, ps[0].Source()), Origin: "broken"}
			classify(bad)
			add(bad, -1)
		}
	}
	rx := NewRNG(deriveSeed(baseSeed, 102, 0))
	if nExtra > 0 {
		// a generated program can contain a statement gosk dies on, which takes the forced construct out
		// of the pool with it: three more candidates per construct, as extra programs
		for _, f := range programFeatures {
			for k := 0; k < 3; k++ {
				forceFeature = f
				ps := genProgram(rx, fmt.Sprintf("featx%d_%s", k, f), f == "edit_twin", true)
				forceFeature = ""
				for i, p := range ps {
					if a := add(p, -1); a >= 0 {
						pool[a].Extra = true
						if i == 1 {
							pool[a].TwinOf = a - 1
							pool[a-1].TwinOf = a
						}
					}
				}
			}
		}
	}
	for i := 0; i < nExtra; i++ {
		ps := genProgram(rx, fmt.Sprintf("ext%04d", i), rx.Chance(1, 3), true)
		a := add(ps[0], -1)
		if a >= 0 {
			pool[a].Extra = true
		}
		if len(ps) > 1 && a >= 0 {
			if b := add(ps[1], a); b >= 0 {
				pool[a].TwinOf = b
				pool[b].Extra = true
			}
		}
	}
	return pool
}

// computeRefs runs K fresh processes per program and variant; returns an I2 violation if two
// fresh processes disagree.
func (c *simCtx) computeRefs(pool []*PoolProg, variants []string, K int, baseSeed uint64, par int) ([]*Violation, [][]*RunSpec) {
	type job struct {
		pi int
		v  string
		k  int
	}
	var jobs []job
	for pi := range pool {
		for _, v := range variants {
			kk := K
			if v == "native" {
				kk = K + 2 // real threads and real entropy are only sampled: sample a little more
			}
			if pool[pi].Extra {
				kk = 1
			}
			for k := 0; k < kk; k++ {
				jobs = append(jobs, job{pi, v, k})
			}
		}
	}
	outs := make([]RefOutcome, len(jobs))
	specs := make([]*RunSpec, len(jobs))
	ress := make([]*RunResult, len(jobs))
	var bmu sync.Mutex
	parallelDo(len(jobs), par, func(i int) {
		jb := jobs[i]
		pp := pool[jb.pi]
		vi := uint64(0)
		if jb.v == "native" {
			vi = 1
		}
		spec := refSpec(jb.v, pp, deriveSeed(baseSeed, 200+vi, uint64(jb.pi)*64+uint64(jb.k)))
		// read the output bytes of the first reference run for later prefills
		t0 := time.Now()
		res := c.runSpecKeep(spec, func(dir string, sc *Script) {
			if jb.k == 0 {
				p := sc.Paths[0]
				if !filepath.IsAbs(p) {
					p = filepath.Join(dir, p)
				}
				if b, err := os.ReadFile(p); err == nil && len(b) <= 1<<18 {
					bmu.Lock()
					pp.Bytes[jb.v] = b
					bmu.Unlock()
				}
			}
		})
		o, _ := refOutcomeOf(res)
		outs[i], specs[i], ress[i] = o, spec, res
		if jb.k == 0 {
			bmu.Lock()
			pp.ExecMs = float64(time.Since(t0).Milliseconds())
			bmu.Unlock()
		}
	})
	type i2 struct {
		v    *Violation
		pair []*RunSpec
	}
	var found []i2
	bad := map[string]bool{}
	for i, jb := range jobs {
		pp := pool[jb.pi]
		pp.RefSpecs[jb.v] = append(pp.RefSpecs[jb.v], specs[i])
		if jb.k == 0 {
			o := outs[i]
			pp.Ref[jb.v] = &o
			continue
		}
		if bad[jb.v+pp.Key] {
			continue
		}
		first := pp.Ref[jb.v]
		o := outs[i]
		o.ExitCode = 0
		a, b := *first, o
		a.ExitCode = 0
		if a != b {
			bad[jb.v+pp.Key] = true
			v := &Violation{Property: "C10", Class: "I2-fresh-processes-disagree", Op: -1, ProgKey: pp.Key,
				Detail:   fmt.Sprintf("two fresh %s processes given the same source (%s) disagree; they differ only in entropy seed, clock epoch, environment and destination name", jb.v, pp.P.Name),
				Expected: first.String(), Observed: o.String()}
			found = append(found, i2{v, []*RunSpec{pp.RefSpecs[jb.v][0], specs[i]}})
		}
	}
	// a program whose fresh processes disagree has no reference: leave it out of the pools
	for _, pp := range pool {
		for _, vn := range variants {
			if bad[vn+pp.Key] {
				pp.Ref[vn] = nil
			}
		}
	}
	var vs []*Violation
	var pairs [][]*RunSpec
	for _, f := range found {
		vs = append(vs, f.v)
		pairs = append(pairs, f.pair)
	}
	return vs, pairs
}

// runSpecKeep is runSpec with a hook that runs before the run directory is removed.
func (c *simCtx) runSpecKeep(spec *RunSpec, before func(dir string, sc *Script)) *RunResult {
	dir := c.newRunDir()
	defer os.RemoveAll(dir)
	sc := spec.Script
	if spec.AbsPaths {
		sc.Paths = append([]string(nil), sc.Paths...)
		for i, p := range sc.Paths {
			sc.Paths[i] = filepath.Join(dir, p)
		}
	}
	sp := filepath.Join(dir, "script.json")
	jp := filepath.Join(dir, "journal.jsonl")
	js, _ := json.Marshal(sc)
	if err := os.WriteFile(sp, js, 0644); err != nil {
		infraFail("write script: %v", err)
	}
	bin := c.b.WorkerNative
	if spec.Variant == "sim" {
		bin = c.b.WorkerSim
	}
	env := baseEnv("VERIFSIM_SCRIPT="+sp, "VERIFSIM_JOURNAL="+jp, fmt.Sprintf("VERIFSIM_INIT_SEED=%d", spec.InitSeed))
	env = append(env, spec.Env...)
	argv := []string{bin, "-test.run=^TestWorker$", "-test.timeout=0", "-test.count=1"}
	if spec.Shell != "" {
		argv = []string{"/bin/sh", "-c", spec.Shell + `; exec "$@"`, "sh", bin, "-test.run=^TestWorker$", "-test.timeout=0", "-test.count=1"}
	}
	if spec.Uid != 0 {
		os.Chmod(dir, 0777)
		argv = append([]string{"setpriv", fmt.Sprintf("--reuid=%d", spec.Uid), fmt.Sprintf("--regid=%d", spec.Uid), "--clear-groups"}, argv...)
	}
	if len(spec.Wrap) > 0 { // outermost: needs the privileges of the harness (new UTS namespace)
		argv = append(append([]string{}, spec.Wrap...), argv...)
	}
	pr := runProc(workerWatchdog, dir, env, argv...)
	if pr.TimedOut {
		infraFail("worker watchdog (%v) expired; stderr: %s", workerWatchdog, clip(pr.Stderr, 400))
	}
	if pr.StartErr != "" || pr.Exit == 97 || pr.Exit == 98 {
		infraFail("worker protocol/start error: %s exit=%d stderr=%s", pr.StartErr, pr.Exit, clip(pr.Stderr, 400))
	}
	res := &RunResult{Proc: pr}
	raw, _ := os.ReadFile(jp)
	res.JournalRaw = raw
	for _, ln := range bytes.Split(raw, []byte("\n")) {
		if len(ln) == 0 {
			continue
		}
		var j JLine
		if err := json.Unmarshal(ln, &j); err != nil {
			infraFail("bad journal line %q: %v", ln, err)
		}
		if j.End {
			res.Ended = true
		}
		res.Journal = append(res.Journal, j)
	}
	if before != nil {
		before(dir, &sc)
	}
	return res
}
