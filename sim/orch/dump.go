package main

import (
	"fmt"
	"os"
)

func dumpProgs(n int) {
	r := NewRNG(deriveSeed(baseSeedFromEnv(), 101, 0))
	for i := 0; i < n; i++ {
		ps := genProgram(r, fmt.Sprintf("gen%04d", i), false, true)
		os.WriteFile(fmt.Sprintf("/tmp/gp/%s.nas", ps[0].Name), ps[0].Source(), 0644)
	}
}
