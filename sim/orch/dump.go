package main

import (
	"fmt"
	"os"
)

func dumpProgs(n int) {
	r := NewRNG(deriveSeed(baseSeedFromEnv(), 101, 0))
	for i := 0; i < n; i++ {
		ps := genProgram(r, fmt.Sprintf("gen%04d", i), false, true)
		os.WriteFile(fmt.Sprintf("/tmp/gp/%s.nas", ps[0].Name), ps[0].Source(), 0644)
	}
}

// dumpPool writes the C10 pool of the given tier (quick: 30 generated programs) to /tmp/gp.
func dumpPool(nGen int) {
	pool := buildPool(baseSeedFromEnv(), nGen, 200, verifDir()+"/corpus")
	for _, pp := range pool {
		os.WriteFile(fmt.Sprintf("/tmp/gp/%s.nas", pp.P.Name), pp.Src, 0644)
	}
	fmt.Println(len(pool), "programs")
}
