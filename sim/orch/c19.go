package main

import (
	"bytes"
	"encoding/base64"
	"encoding/json"
	"fmt"
	"os"
	"path/filepath"
	"regexp"
	"sort"
	"strconv"
	"strings"
	"sync"
	"syscall"
	"time"
)

// ---------- scenario = (argv, world, fault plan), all explicit ----------

type Fault struct {
	Kind    string `json:"kind"`              // fsize | nofile | strace
	K       int    `json:"k,omitempty"`       // fsize: bytes; nofile: descriptors
	Target  string `json:"target,omitempty"`  // src | dst
	Syscall string `json:"syscall,omitempty"` // openat | read | write | newfstatat | close | fstat
	When    int    `json:"when,omitempty"`
	Errno   string `json:"errno,omitempty"`
}

func (f *Fault) String() string {
	if f == nil {
		return "none"
	}
	switch f.Kind {
	case "fsize", "nofile":
		return fmt.Sprintf("%s=%d", f.Kind, f.K)
	}
	return fmt.Sprintf("strace:%s:%s:%s:when=%d", f.Target, f.Syscall, f.Errno, f.When)
}

type Scenario struct {
	Seed           uint64   `json:"seed"`
	ProgName       string   `json:"prog_name"`
	Header         []string `json:"header"`
	Body           []string `json:"body"`
	RawSrc         string   `json:"raw_src_b64,omitempty"` // corpus original, verbatim bytes (Header/Body hold its comment-free form)
	Enc            string   `json:"enc"`                   // ascii | sjis | utf8 | raw-utf8 | raw-sjis
	DecoSeed       uint64   `json:"deco_seed"`
	CRLF           bool     `json:"crlf,omitempty"`
	BOM            bool     `json:"bom,omitempty"`       // the file (and its comment-free form) starts with a UTF-8 byte order mark
	MixedEOL       uint64   `json:"mixed_eol,omitempty"` // != 0: every line end is LF or CRLF, chosen per line from this seed
	BareCR         bool     `json:"bare_cr,omitempty"`   // lone CR line ends (the grammar accepts them): the whole file without MixedEOL, some lines with it
	NoLead         bool     `json:"no_lead,omitempty"`   // no comment line at the top: the first non-ASCII byte comes after code
	NoFinalNL      bool     `json:"no_final_nl,omitempty"`
	Bulk           int      `json:"bulk,omitempty"`       // >0: blocks of this many own-line comment lines are inserted (large files)
	Light          bool     `json:"light,omitempty"`      // no very long comments (used with -d, whose parser trace is enormous)
	AsciiHead      int      `json:"ascii_head,omitempty"` // >0: the first AsciiHead bytes of the file are pure ASCII (filler comment lines), non-ASCII comments only after
	Straddle       int      `json:"straddle,omitempty"`   // a leading comment block sized so that a multi-byte character of a comment straddles this file offset (a buffer boundary)
	Break          int      `json:"break,omitempty"`      // >0: token damage of kind Break-1 on line BreakLine (source must then fail to parse)
	BreakLine      int      `json:"break_line,omitempty"`
	Shape          string   `json:"argv_shape"` // none | src | src-dst | src-dst-lst | four | d-src-dst | v | help | badflag | d-only
	SrcKind        string   `json:"src_kind"`
	DstKind        string   `json:"dst_kind"`
	DstPrefillSeed uint64   `json:"dst_prefill_seed,omitempty"`
	LstKind        string   `json:"lst_kind,omitempty"` // ok | parent_missing
	Uid            int      `json:"uid"`
	Env            []string `json:"env,omitempty"`     // extra environment of the command (locale, TZ, ...)
	Stdout         string   `json:"stdout,omitempty"`  // "" (pipe, captured) | closed | devfull
	Stdin          string   `json:"stdin,omitempty"`   // "" (/dev/null) | closed
	Cwd            string   `json:"cwd,omitempty"`     // "" (the world directory) | root | readonly (a directory the user cannot write; paths are absolute then)
	DstFd          string   `json:"dst_fd,omitempty"`  // "" | devfd | procfd: the output is named /dev/fd/7 (/proc/self/fd/7), descriptor 7 being open on the destination file
	Clutter        uint64   `json:"clutter,omitempty"` // != 0: names next to the output that helpers like to use (out~, out.bak, out.tmp, out.part, out.lock, ...) already exist as directories or read-only files
	Fs             string   `json:"fs,omitempty"`      // file system mounted on the output directory: "" (the scratch tmpfs) | ramfs (statfs reports no blocks at all) | tmpfs_small | tmpfs_full (no free block: real ENOSPC on write) | tmpfs_noinodes (no free inode: real ENOSPC on create)
	fsActive       bool     // the file system of this run is really mounted (set by execute)
	Argv0          string   `json:"argv0,omitempty"`      // invoke the command through a symlink of this name
	ArgPrefix      string   `json:"arg_prefix,omitempty"` // switches in front of the file arguments that leave their meaning unchanged: "--" | "-d=false" | "-d=false --" | "--d=false"
	SrcMtime       int64    `json:"src_mtime,omitempty"`
	Fault          *Fault   `json:"fault,omitempty"`
}

type ScenarioOutcome struct {
	Exit         int      `json:"exit"`
	Signal       string   `json:"signal,omitempty"`
	Output       string   `json:"output"`
	PosLines     []int    `json:"pos_lines,omitempty"` // distinct line numbers of position-like patterns in the complete output
	LineMismatch string   `json:"line_mismatch_nongating,omitempty"`
	Argv         []string `json:"argv"`
	Cmdline      []string `json:"cmdline"`
	DstPre       string   `json:"dst_pre"`
	DstPost      string   `json:"dst_post"`
	ImageClass   string   `json:"image_class"`
	ImageSha     string   `json:"image_sha,omitempty"`
	ImageLen     int      `json:"image_len"`
	PartialKind  string   `json:"partial_kind,omitempty"`
	FaultFired   int      `json:"fault_fired"`
	FsMounted    string   `json:"fs_mounted,omitempty"`
	FaultLines   []string `json:"fault_lines,omitempty"`
	Trace        []string `json:"trace,omitempty"` // fault-free syscall trace: "src:openat", "dst:write", ...
	WorldChanges []string `json:"world_changes,omitempty"`
	Expect       string   `json:"expect"`
	HealExit     *int     `json:"heal_exit,omitempty"`
	HealDstPost  string   `json:"heal_dst_post,omitempty"`
	WallMs       int64    `json:"wall_ms"`

	dstAbsForJudge string
	dstCollected   []byte // destination is a FIFO: what its reader received
	dstIsFifo      bool
}

// ---------- source materialisation ----------

func stripComment(line string) string {
	inq := byte(0)
	for i := 0; i < len(line); i++ {
		c := line[i]
		if inq != 0 {
			if c == inq {
				inq = 0
			}
			continue
		}
		if c == '"' || c == '\'' {
			inq = c
			continue
		}
		if c == ';' || c == '#' {
			return strings.TrimRight(line[:i], " \t")
		}
	}
	return strings.TrimRight(line, " \t\r")
}

func plainLinesOfRaw(raw []byte) []string {
	var out []string
	for _, l := range strings.Split(strings.ReplaceAll(string(raw), "\r\n", "\n"), "\n") {
		out = append(out, stripComment(l))
	}
	// drop trailing empties
	for len(out) > 0 && out[len(out)-1] == "" {
		out = out[:len(out)-1]
	}
	return out
}

func commentText(r *RNG, enc string, light bool) []byte {
	n := r.Range(0, 14)
	if r.Chance(1, 150) && !light {
		n = pick(r, []int{30000, 33000, 70000}) // a comment line longer than common buffer sizes (64 KiB) in either encoding
	}
	var b []byte
	if enc != "ascii" && !light && r.Chance(1, 10) {
		// a long run of one kind of character: the extremes of the size ratio between the two encodings
		// (half-width katakana: 1 byte in Shift_JIS, 3 in UTF-8; double-byte: 2 and 3; ASCII: 1 and 1)
		m := pick(r, []int{20, 60, 200, 400, 1500})
		kind := r.Intn(4)
		for i := 0; i < m; i++ {
			switch kind {
			case 0, 1: // half-width katakana, from one half of the range or from all of it
				lo, hi := 0xA1, 0xDF
				if kind == 1 {
					lo, hi = 0xA1, 0xBF
				}
				k := lo + r.Intn(hi-lo+1)
				if enc == "sjis" {
					b = append(b, byte(k))
				} else {
					b = append(b, string(rune(0xFF61+k-0xA1))...)
				}
			case 2: // double-byte characters only
				k := r.Intn(len(sjisAllU))
				if enc == "sjis" {
					b = append(b, sjisAllS[2*k], sjisAllS[2*k+1])
				} else {
					b = append(b, string(sjisAllU[k])...)
				}
			default: // the longest UTF-8 sequences (not representable in Shift_JIS: plain ASCII there)
				if enc == "utf8" {
					b = append(b, string(rune(0x1F600+r.Intn(64)))...)
				} else {
					b = append(b, byte('a'+r.Intn(26)))
				}
			}
		}
		return b
	}
	// bias: sometimes end the comment with a 0x5c / 0x7c trail character or half-width kana
	for i := 0; i < n; i++ {
		var c cchar
		for {
			c = commentChars[r.Intn(len(commentChars))]
			if c.Cls == "ascii" && r.Chance(2, 3) {
				continue
			}
			break
		}
		if i == n-1 && r.Chance(1, 2) {
			for c.Cls != "t5c" && c.Cls != "t7c" && c.Cls != "half" {
				c = commentChars[r.Intn(len(commentChars))]
			}
		}
		if enc != "ascii" && r.Chance(1, 4) { // arbitrary text: any double-byte character of the code set
			k := r.Intn(len(sjisAllU))
			if enc == "sjis" {
				b = append(b, sjisAllS[2*k], sjisAllS[2*k+1])
			} else {
				b = append(b, string(sjisAllU[k])...)
			}
			continue
		}
		if enc == "utf8" && r.Chance(1, 6) { // arbitrary UTF-8 text: any scalar value except line ends
			specials := []rune{0xFFFD, 0xFEFF, 0x2028, 0x2029, 0x85, 0xA0, 0x80, 0x10FFFF, 0xFFFE, 0x7F, 0x1B, 0x0C, 0x0B, 0x1F600, 0xE000, 0x3000}
			var ru rune
			if r.Chance(1, 2) {
				ru = specials[r.Intn(len(specials))]
			} else {
				for {
					ru = rune(r.Intn(0x110000))
					if ru >= 0x20 && !(ru >= 0xD800 && ru <= 0xDFFF) {
						break
					}
				}
			}
			b = append(b, string(ru)...)
			continue
		}
		if r.Chance(1, 40) { // control characters that are not line ends: FF, VT, ESC, DEL, Ctrl-Z (DOS end-of-file mark)
			b = append(b, pick(r, []byte{0x0c, 0x0b, 0x1b, 0x7f, 0x1a, 0x08, 0x01}))
			continue
		}
		if enc == "sjis" && c.S == nil {
			continue
		}
		if c.U == "\t" || enc == "ascii" && c.Cls != "ascii" {
			if enc == "ascii" {
				b = append(b, byte('a'+r.Intn(26)))
			}
			continue
		}
		if enc == "sjis" {
			b = append(b, c.S...)
		} else {
			b = append(b, c.U...)
		}
	}
	if n == 13 {
		// the comment ends with an escape sequence that means something to *another* decoder (ISO-2022-JP
		// kanji-in / ASCII-in, a JIS X 0212 designator, shift-out, an ANSI colour, HZ), with an odd or even number
		// of bytes after it; chosen from values already drawn, so that no other scenario of a seed changes
		esc := []string{"\x1b$B", "\x1b$Bk", "\x1b$@", "\x1b$@q", "\x1b(B", "\x1b(J", "\x1b$(D", "\x1b[31m", "\x0e", "~{", "\x1b$B\x1b(B", "\x1b$Bab"}
		b = append(b, esc[len(b)%len(esc)]...)
	}
	return b
}

func breakLine(kind int, l string) string {
	switch kind % 7 {
	case 4: // statements that stop half way: the parser fails at the end of the line (of the file, if it is the last)
		return "\tMOV\tCX,"
	case 5:
		return "\tDB\t1, 2,"
	case 6:
		return "\tMOV\tAX,[BX+"
	case 0:
		return l + " ,,"
	case 1:
		return "\tMOV\t[,AX"
	case 2:
		return "\"unterminated"
	default:
		return "\tDB\t1 2 3 ]"
	}
}

// materialise returns (bytes of the source file as written, bytes of its comment-free form).
func (s *Scenario) materialise() (src []byte, plain []byte) {
	src, plain = s.materialise0()
	if s.BOM {
		bom := []byte{0xEF, 0xBB, 0xBF}
		src = append(append([]byte{}, bom...), src...)
		plain = append(append([]byte{}, bom...), plain...)
	}
	return
}

func (s *Scenario) materialise0() (src []byte, plain []byte) {
	lines := append(append([]string(nil), s.Header...), s.Body...)
	if s.Break > 0 && len(lines) > 0 {
		lines[s.BreakLine%len(lines)] = breakLine(s.Break-1, lines[s.BreakLine%len(lines)])
	}
	nl := "\n"
	if s.CRLF {
		nl = "\r\n"
	} else if s.BareCR {
		nl = "\r"
	}
	join := func(ls [][]byte) []byte {
		var b bytes.Buffer
		for i, l := range ls {
			b.Write(l)
			if i < len(ls)-1 || !s.NoFinalNL {
				if s.MixedEOL != 0 { // per-line choice, the same for the commented and the comment-free file
					if h := splitmix64(s.MixedEOL + uint64(i)); h%3 == 0 {
						b.WriteString("\r\n")
					} else if s.BareCR && (h>>8)%3 == 0 {
						b.WriteString("\r")
					} else {
						b.WriteString("\n")
					}
				} else {
					b.WriteString(nl)
				}
			}
		}
		return b.Bytes()
	}
	var pl [][]byte
	for _, l := range lines {
		pl = append(pl, []byte(l))
	}
	plain = join(pl)
	if s.RawSrc != "" && s.Break == 0 {
		raw, _ := base64.StdEncoding.DecodeString(s.RawSrc)
		return raw, plain
	}
	if s.Enc == "ascii" && s.DecoSeed == 0 {
		return plain, plain
	}
	r := NewRNG(s.DecoSeed)
	var dl [][]byte
	pl2 := [][]byte{}
	size := 0
	encAt := func() string { // which encoding the next comment may use
		if size < s.AsciiHead {
			return "ascii"
		}
		return s.Enc
	}
	if s.Straddle > 0 && s.Enc != "ascii" && s.MixedEOL == 0 {
		// filler comment lines, then one comment whose first multi-byte character begins just before the offset
		start := s.Straddle - 1
		if s.Enc == "utf8" && s.DecoSeed%2 == 1 {
			start = s.Straddle - 2 // a 3-byte sequence can be cut after its first or its second byte
		}
		for start-size > 260 {
			l := append([]byte(";"), bytes.Repeat([]byte{'a'}, 198)...)
			dl = append(dl, l)
			pl2 = append(pl2, []byte(""))
			size += len(l) + len(nl)
		}
		if rem := start - size; rem >= 1 {
			l := append([]byte(";"), bytes.Repeat([]byte{'b'}, rem-1)...)
			for k := 0; k < 6; k++ {
				ix := r.Intn(len(sjisAllU))
				if s.Enc == "sjis" {
					l = append(l, sjisAllS[2*ix], sjisAllS[2*ix+1])
				} else {
					ru := sjisAllU[ix]
					if ru < 0x800 {
						ru = 0x3042 // (a 3-byte character)
					}
					l = append(l, string(ru)...)
				}
			}
			dl = append(dl, l)
			pl2 = append(pl2, []byte(""))
			size += len(l) + len(nl)
		}
	}
	for size < s.AsciiHead { // ASCII-only head: the charset cannot be guessed from the beginning of the file
		l := append([]byte("; "), commentText(r, "ascii", s.Light)...)
		l = append(l, " -- filler line of plain ASCII text to move the first Japanese comment further down"...)
		dl = append(dl, l)
		pl2 = append(pl2, []byte(""))
		size += len(l) + 1
	}
	if !s.NoLead {
		dl = append(dl, append([]byte("; "), commentText(r, encAt(), s.Light)...))
		pl2 = append(pl2, []byte(""))
	}
	for li, l := range lines {
		size += len(l) + 8
		d := []byte(l)
		damaged := s.Break > 0 && len(lines) > 0 && li == s.BreakLine%len(lines)
		if r.Chance(1, 2) && !damaged {
			mark := ";"
			if r.Chance(1, 6) {
				mark = "#"
			}
			sep := pick(r, []string{"\t", " ", "\t\t", ""})
			if l == "" {
				sep = ""
			}
			d = append(d, (sep + mark + pick(r, []string{" ", "", "\t"}))...)
			d = append(d, commentText(r, encAt(), s.Light)...)
		}
		dl = append(dl, d)
		pl2 = append(pl2, []byte(l))
		if r.Chance(1, 8) { // own-line comment
			dl = append(dl, append([]byte(pick(r, []string{";", "; ", "\t; ", "# "})), commentText(r, encAt(), s.Light)...))
			pl2 = append(pl2, []byte(""))
		}
		if s.Bulk > 0 && r.Chance(1, 6) { // a block of comment lines: pushes the file past buffer sizes, shifts alignment
			for k := 0; k < s.Bulk; k++ {
				dl = append(dl, append([]byte("; "), commentText(r, encAt(), s.Light)...))
				pl2 = append(pl2, []byte(""))
			}
		}
	}
	// The comment-free form keeps the same line structure (blank lines where own-line comments
	// were), so that only comments differ between the two files.
	return join(dl), join(pl2)
}

// ---------- world ----------

type worldPaths struct {
	dstIsFifo      bool
	fsMounted      bool
	dstFdPath      string
	W              string
	SrcArg, DstArg string // as passed on argv
	LstArg         string
	SrcAbs, DstAbs string // for the harness to inspect (DstAbs = where bytes land, after symlinks)
	isFifo         bool
	fifoData       []byte // when the source is a FIFO: what the feeder writes
	stdinData      []byte // when the source is /dev/stdin: what is piped in
}

const nobody = 65534

func describePath(p string) string {
	st, err := os.Stat(p)
	if err != nil {
		if _, lerr := os.Lstat(p); lerr == nil {
			return "dangling-symlink"
		}
		return "absent"
	}
	if st.IsDir() {
		return "dir"
	}
	if !st.Mode().IsRegular() {
		return "special:" + st.Mode().Type().String()
	}
	b, err := os.ReadFile(p)
	if err != nil {
		return "unreadable"
	}
	return fmt.Sprintf("file:%s:%d", shaHex(b), len(b))
}

func snapshotWorld(root string) map[string]string {
	m := map[string]string{}
	filepath.Walk(root, func(p string, info os.FileInfo, err error) error {
		if err != nil {
			return nil
		}
		rel, _ := filepath.Rel(root, p)
		switch {
		case info.Mode()&os.ModeSymlink != 0:
			t, _ := os.Readlink(p)
			m[rel] = "symlink:" + t
		case info.IsDir():
			m[rel] = fmt.Sprintf("dir:%o", info.Mode().Perm())
		case !info.Mode().IsRegular(): // FIFO, device: never opened by the harness
			m[rel] = "special:" + info.Mode().Type().String()
		default:
			b, err := os.ReadFile(p)
			if err != nil {
				m[rel] = fmt.Sprintf("file:unreadable:%o", info.Mode().Perm())
			} else {
				m[rel] = fmt.Sprintf("file:%s:%d:%o", shaHex(b)[:16], len(b), info.Mode().Perm())
			}
		}
		return nil
	})
	return m
}

func (s *Scenario) buildWorld(W string, src []byte, image []byte) (*worldPaths, error) {
	wp := &worldPaths{W: W}
	must := func(err error) {
		if err != nil {
			panic(modelErr("world: " + err.Error()))
		}
	}
	must(os.MkdirAll(filepath.Join(W, "in"), 0777))
	must(os.MkdirAll(filepath.Join(W, "out"), 0777))
	if s.Fs != "" {
		wp.fsMounted = mountFs(s.Fs, filepath.Join(W, "out"), 2*len(image)+len(src)+(96<<10))
	}
	os.Chmod(W, 0777)
	os.Chmod(filepath.Join(W, "in"), 0777)
	os.Chmod(filepath.Join(W, "out"), 0777)
	r := NewRNG(s.Seed ^ 0xabcdef)
	srcName := pick(r, []string{"prog.nas", "ipl.nas", "a.nas", "haribote.asm", "prog.nas", "ipl.nas", `day1\ipl.nas`, "a:b.nas", "50%.nas", "*.nas"})
	dstName := pick(r, []string{"o.bin", "out.obj", "ipl.bin", "naskfunc.obj", "x", "o.bin", "out.obj", `bin\ipl.bin`, "a:b.img", "50%.bin", "o'q\".bin", "*.bin"})
	if s.Fault != nil && s.Fault.Kind == "trace" { // the trace is matched against the path as strace prints it: plain names
		srcName, dstName = "prog.nas", "o.bin"
	}
	srcAbs := filepath.Join(W, "in", srcName)
	// --- source ---
	switch s.SrcKind {
	case "file", "":
		must(os.WriteFile(srcAbs, src, 0644))
	case "missing":
	case "dir":
		must(os.Mkdir(srcAbs, 0755))
	case "socket": // a unix-domain socket node where the source should be: open(2) fails with ENXIO
		must(syscall.Mknod(srcAbs, syscall.S_IFSOCK|0666, 0))
		os.Chmod(srcAbs, 0666)
	case "mode000":
		must(os.WriteFile(srcAbs, src, 0644))
		must(os.Chmod(srcAbs, 0))
	case "symlink_ok":
		real := filepath.Join(W, "in", "real_"+srcName)
		must(os.WriteFile(real, src, 0644))
		must(os.Symlink(real, srcAbs))
	case "dangling":
		must(os.Symlink(filepath.Join(W, "in", "nothing-here"), srcAbs))
	case "loop":
		other := filepath.Join(W, "in", "loop2")
		must(os.Symlink(other, srcAbs))
		must(os.Symlink(srcAbs, other))
	case "spacename":
		srcAbs = filepath.Join(W, "in", "my prog (1).nas")
		must(os.WriteFile(srcAbs, src, 0644))
	case "nonascii_name":
		srcAbs = filepath.Join(W, "in", "ソース表.nas")
		must(os.WriteFile(srcAbs, src, 0644))
	case "longname":
		srcAbs = filepath.Join(W, "in", strings.Repeat("n", 300)+".nas")
	case "same_as_dst":
		srcAbs = filepath.Join(W, "out", dstName)
		must(os.WriteFile(srcAbs, src, 0644))
	case "emptyarg":
	case "stdin": // `preprocessor | gosk /dev/stdin out`
		wp.stdinData = append([]byte{}, src...)
	case "other_readable": // root-owned, readable only through the "other" permission bits
		must(os.WriteFile(srcAbs, src, 0604))
		os.Chmod(srcAbs, 0604)
	case "parent_is_file": // ENOTDIR
		must(os.WriteFile(filepath.Join(W, "in", "plainfile"), []byte("x"), 0644))
		srcAbs = filepath.Join(W, "in", "plainfile", srcName)
	case "trailing_slash": // an existing regular file named with a trailing slash: ENOTDIR
		must(os.WriteFile(srcAbs, src, 0644))
	case "relative", "dotslash":
		must(os.WriteFile(srcAbs, src, 0644))
	case "dotdot_via_symlink":
		must(os.MkdirAll(filepath.Join(W, "sdeep", "sub"), 0777))
		must(os.Symlink(filepath.Join(W, "sdeep", "sub"), filepath.Join(W, "slnk")))
		srcAbs = filepath.Join(W, "sdeep", srcName)
		must(os.WriteFile(srcAbs, src, 0644))
	case "barename": // a bare file name in the current directory, with an unusual first character
		srcName = pick(r, []string{"01_hello.nas", "3d.nas", "2", "+x.nas", "=a.nas", "@file.nas", "~tilde.nas", ".hidden.nas", "a b.nas", "名前.nas", "1",
			`in\boot.nas`, `src\x.nas`, "c:x.nas", "$x.nas", "x;y.nas", "%s.nas", "*.nas", "x?.nas", "[x].nas", "x'y\".nas", "x.NAS", "x.nas.", "x.nas "})
		if strings.HasSuffix(s.ArgPrefix, "--") && s.prefixApplies() && s.Seed%2 == 0 {
			srcName = pick(r, []string{"-boot.nas", "-d", "--x.nas", "-"}) // after "--" a name may begin with a dash
		}
		srcAbs = filepath.Join(W, srcName)
		must(os.WriteFile(srcAbs, src, 0644))
	case "fifo": // a named pipe fed by a writer (stat size 0; e.g. the output of a preprocessor)
		must(syscall.Mkfifo(srcAbs, 0666))
		os.Chmod(srcAbs, 0666)
		wp.fifoData, wp.isFifo = src, true
	default:
		panic(modelErr("unknown src kind " + s.SrcKind))
	}
	if s.SrcMtime != 0 {
		t := time.Unix(s.SrcMtime, 0)
		os.Chtimes(srcAbs, t, t) // ignored for kinds without a file
	}
	wp.SrcAbs, wp.SrcArg = srcAbs, srcAbs
	if s.SrcKind == "trailing_slash" {
		wp.SrcArg = srcAbs + "/"
	}
	switch s.SrcKind {
	case "emptyarg":
		wp.SrcArg = ""
	case "stdin":
		wp.SrcArg, wp.SrcAbs = "/dev/stdin", "/dev/stdin"
	case "dotdot_via_symlink":
		wp.SrcArg = "slnk/../" + srcName
	case "barename":
		wp.SrcArg = srcName
	case "relative":
		wp.SrcArg = filepath.Join("in", srcName)
	case "dotslash":
		wp.SrcArg = "./in/../in/" + srcName
	}
	// --- destination ---
	dstAbs := filepath.Join(W, "out", dstName)
	dstArg := dstAbs
	pre := func(n int) []byte { return genGarbage(s.DstPrefillSeed, n) }
	switch s.DstKind {
	case "absent", "":
	case "empty":
		must(os.WriteFile(dstAbs, nil, 0644))
	case "shorter":
		n := len(image) / 2
		must(os.WriteFile(dstAbs, pre(n), 0644))
	case "equal":
		must(os.WriteFile(dstAbs, pre(len(image)), 0644))
	case "longer":
		must(os.WriteFile(dstAbs, pre(len(image)+1+int(s.DstPrefillSeed%5000)), 0644))
	case "old_image":
		old := append([]byte(nil), image...)
		if len(old) > 3 {
			old[len(old)/2] ^= 0x55
		}
		old = append(old, 0xEE, 0xEE)
		must(os.WriteFile(dstAbs, old, 0644))
	case "image_with_tail": // an earlier, longer build of the same program, or a padded image: begins with the new image
		tail := pre(1 + int(s.DstPrefillSeed%600))
		if s.DstPrefillSeed%3 == 0 {
			tail = make([]byte, 512-len(image)%512) // zero padding up to the next sector
		}
		must(os.WriteFile(dstAbs, append(append([]byte(nil), image...), tail...), 0644))
	case "image_prefix": // an earlier, shorter build: a proper prefix of the new image
		must(os.WriteFile(dstAbs, append([]byte(nil), image[:len(image)/2]...), 0644))
	case "same_image": // the output of the previous identical build
		must(os.WriteFile(dstAbs, append([]byte(nil), image...), 0644))
	case "ro_file":
		must(os.WriteFile(dstAbs, pre(10), 0444))
	case "ro_dir":
		d := filepath.Join(W, "rodir")
		must(os.Mkdir(d, 0555))
		os.Chmod(d, 0555)
		dstAbs = filepath.Join(d, dstName)
		dstArg = dstAbs
	case "dir_no_search": // directory writable but not searchable for others
		d := filepath.Join(W, "nosearch")
		must(os.Mkdir(d, 0722))
		os.Chmod(d, 0722)
		dstAbs = filepath.Join(d, dstName)
		dstArg = dstAbs
	case "parent_missing":
		dstAbs = filepath.Join(W, "nodir", "sub", dstName)
		dstArg = dstAbs
	case "parent_is_file":
		must(os.WriteFile(filepath.Join(W, "afile"), []byte("x"), 0666))
		dstAbs = filepath.Join(W, "afile", dstName)
		dstArg = dstAbs
	case "is_dir":
		must(os.Mkdir(dstAbs, 0777))
	case "socket": // a unix-domain socket node: open(2) fails with ENXIO for every uid, the node stays
		must(syscall.Mknod(dstAbs, syscall.S_IFSOCK|0666, 0))
		os.Chmod(dstAbs, 0666)
	case "symlink_file": // judged on the file the bytes land in, not on the link
		tgt := filepath.Join(W, "out", "target.bin")
		must(os.WriteFile(tgt, pre(len(image)+9), 0644))
		must(os.Symlink(tgt, dstAbs))
		dstArg, dstAbs = dstAbs, tgt
	case "dangling_symlink":
		tgt := filepath.Join(W, "out", "newtarget.bin")
		must(os.Symlink(tgt, dstAbs))
		dstArg, dstAbs = dstAbs, tgt
	case "other_writable": // existing root-owned file writable through the "other" bits, in a root-owned directory
		d := filepath.Join(W, "rootdir")
		must(os.Mkdir(d, 0755))
		dstAbs = filepath.Join(d, dstName)
		dstArg = dstAbs
		must(os.WriteFile(dstAbs, pre(len(image)+3), 0666))
		os.Chmod(dstAbs, 0666)
	case "rw_file_in_ro_dir": // an existing, writable output in a directory that cannot be modified
		d := filepath.Join(W, "fixeddir")
		must(os.Mkdir(d, 0755))
		dstAbs = filepath.Join(d, dstName)
		dstArg = dstAbs
		must(os.WriteFile(dstAbs, pre(len(image)+5), 0666))
		os.Chmod(dstAbs, 0666)
		must(os.Chmod(d, 0555))
	case "dev_full":
		dstAbs, dstArg = "/dev/full", "/dev/full"
	case "barename":
		dstName = pick(r, []string{"1.bin", "0", "outfile", "+o", "@o.bin", ".o", "9", "7e.obj", "o o.bin", "out.", "out ", "~out", "OUT.BIN", "a.b.c", "o.BIN", "x.nas", "o.bin.tmp", "o~", `out\img.bin`, `..\o.bin`, "c:o.bin", "$HOME.bin", "o;p.bin", "%d.bin", "{a,b}.bin", "o?.bin", "[o].bin"})
		dstAbs = filepath.Join(W, dstName)
		dstArg = dstName
	case "relative":
		dstArg = filepath.Join("out", dstName)
	case "dotdot":
		dstArg = filepath.Join("in", "..", "out", dstName)
	case "dotdot_via_symlink": // "lnk/../name": the kernel resolves .. through the symlink, a lexical clean-up does not
		must(os.MkdirAll(filepath.Join(W, "deep", "sub"), 0777))
		os.Chmod(filepath.Join(W, "deep"), 0777)
		os.Chmod(filepath.Join(W, "deep", "sub"), 0777)
		must(os.Symlink(filepath.Join(W, "deep", "sub"), filepath.Join(W, "lnk")))
		dstAbs = filepath.Join(W, "deep", dstName)
		dstArg = "lnk/../" + dstName
	case "longname":
		dstAbs = filepath.Join(W, "out", strings.Repeat("d", 300))
		dstArg = dstAbs
	case "emptyarg":
		dstAbs, dstArg = filepath.Join(W, "out", "never-created"), ""
	case "hardlink_to_src", "symlink_to_src": // the output is the source file under another name
		if s.SrcKind != "file" && s.SrcKind != "" {
			panic(modelErr(s.DstKind + " needs a plain source file"))
		}
		if s.DstKind == "hardlink_to_src" {
			must(os.Link(srcAbs, dstAbs))
		} else {
			must(os.Symlink(srcAbs, dstAbs))
		}
	case "fifo": // a named pipe with a reader at the other end: not seekable, no truncation, no size
		must(syscall.Mkfifo(dstAbs, 0666))
		os.Chmod(dstAbs, 0666)
		wp.dstIsFifo = true
	case "symlink_loop": // ELOOP
		other := filepath.Join(W, "out", "loop2")
		must(os.Symlink(other, dstAbs))
		must(os.Symlink(dstAbs, other))
	case "dev_null":
		dstAbs, dstArg = "/dev/null", "/dev/null"
	case "trailing_slash": // "out/name/" cannot be created as a file
		dstArg = dstAbs + "/"
	default:
		panic(modelErr("unknown dst kind " + s.DstKind))
	}
	if s.SrcKind == "same_as_dst" {
		if s.DstKind != "absent" && s.DstKind != "" {
			panic(modelErr("same_as_dst needs dst kind absent"))
		}
	}
	if s.Clutter != 0 && dstAbs != "/dev/null" && dstAbs != "/dev/full" {
		if st, err := os.Stat(filepath.Dir(dstAbs)); err == nil && st.IsDir() {
			base := filepath.Base(dstAbs)
			noext := strings.TrimSuffix(base, filepath.Ext(base))
			for i, n := range []string{base + "~", base + ".bak", base + ".tmp", base + ".part", base + ".lock", base + ".old", base + ".new", base + ".orig", "." + base + ".swp", noext + ".lst", noext + ".map", "." + base + ".tmp", "#" + base + "#"} {
				p := filepath.Join(filepath.Dir(dstAbs), n)
				switch (s.Clutter >> (2 * uint(i))) & 3 {
				case 0:
					os.Mkdir(p, 0555)
				case 1:
					os.WriteFile(p, []byte("do not touch\n"), 0444)
				case 2:
					os.Symlink("/nonexistent/target", p)
				}
			}
		}
	}
	if s.DstFd != "" {
		if filepath.Dir(dstAbs) != filepath.Join(W, "out") {
			panic(modelErr("dst_fd needs a plain destination in the output directory"))
		}
		wp.dstFdPath = dstAbs
		dstArg = "/dev/fd/7"
		if s.DstFd == "procfd" {
			dstArg = "/proc/self/fd/7"
		}
	}
	wp.DstAbs, wp.DstArg = dstAbs, dstArg
	if wp.fsMounted {
		switch s.Fs {
		case "tmpfs_full":
			fillBlocks(filepath.Join(W, "out", ".filler"))
		case "tmpfs_noinodes":
			fillInodes(filepath.Join(W, "out"))
		}
	}
	switch s.LstKind {
	case "ok":
		wp.LstArg = filepath.Join(W, "out", "list.lst")
	case "parent_missing":
		wp.LstArg = filepath.Join(W, "nolist", "list.lst")
	case "is_dir":
		wp.LstArg = filepath.Join(W, "out", "listdir")
		must(os.Mkdir(wp.LstArg, 0777))
	case "dev_full":
		wp.LstArg = "/dev/full"
	case "symlink_to_dst":
		wp.LstArg = filepath.Join(W, "out", "list_link")
		must(os.Symlink(wp.DstAbs, wp.LstArg))
	case "symlink_to_src":
		wp.LstArg = filepath.Join(W, "out", "list_link")
		must(os.Symlink(wp.SrcAbs, wp.LstArg))
	case "ro_existing": // an existing listing the user may not write (as uid 65534)
		wp.LstArg = filepath.Join(W, "out", "list.lst")
		must(os.WriteFile(wp.LstArg, []byte("old listing, rather longer than anything a tiny program would produce\n"), 0444))
	case "same_as_src": // the list path names the source: must neither be read as a listing target nor destroy the image
		wp.LstArg = wp.SrcArg
	case "same_as_dst": // the list path names the output itself: still a creatable path
		wp.LstArg = wp.DstArg
	case "existing": // an existing listing from an earlier build
		wp.LstArg = filepath.Join(W, "out", "list.lst")
		must(os.WriteFile(wp.LstArg, []byte("old listing\n"), 0644))
	}
	if s.Uid != 0 {
		// hand the world to the unprivileged user, except the objects whose point is that it cannot touch them
		filepath.Walk(W, func(p string, info os.FileInfo, err error) error {
			if err != nil {
				return nil
			}
			if s.DstKind == "ro_file" && p == dstAbs {
				return nil
			}
			if s.DstKind == "ro_dir" && p == filepath.Join(W, "rodir") {
				return nil
			}
			if s.DstKind == "dir_no_search" && p == filepath.Join(W, "nosearch") {
				return nil
			}
			if s.DstKind == "rw_file_in_ro_dir" && p == filepath.Join(W, "fixeddir") {
				return nil
			}
			if s.DstKind == "other_writable" && strings.HasPrefix(p, filepath.Join(W, "rootdir")) {
				return nil
			}
			if s.SrcKind == "other_readable" && p == srcAbs {
				return nil
			}
			os.Lchown(p, nobody, nobody)
			return nil
		})
	}
	return wp, nil
}

// prefixApplies: the argv shape begins with the file arguments, so ArgPrefix can go in front of them.
func (s *Scenario) prefixApplies() bool {
	switch s.Shape {
	case "none", "src", "src-dst", "src-dst-lst", "four", "src-dst-dashlst", "src-dst-v":
		return s.ArgPrefix != ""
	}
	return false
}

func (s *Scenario) argv(wp *worldPaths) []string {
	a := s.argv0(wp)
	if s.prefixApplies() {
		a = append(strings.Fields(s.ArgPrefix), a...)
	}
	return a
}

func (s *Scenario) argv0(wp *worldPaths) []string {
	switch s.Shape {
	case "none":
		return nil
	case "src":
		return []string{wp.SrcArg}
	case "src-dst":
		return []string{wp.SrcArg, wp.DstArg}
	case "src-dst-lst":
		return []string{wp.SrcArg, wp.DstArg, wp.LstArg}
	case "four":
		return []string{wp.SrcArg, wp.DstArg, wp.LstArg, "extra"}
	case "d-src-dst":
		return []string{"-d", wp.SrcArg, wp.DstArg}
	case "d-only":
		return []string{"-d"}
	case "d-src":
		return []string{"-d", wp.SrcArg}
	case "v":
		return []string{"-v"}
	case "help":
		return []string{"--help"}
	case "badflag":
		return []string{"-x", wp.SrcArg, wp.DstArg}
	case "src-dst-dashlst": // a list file whose name begins with '-' (legal after the first positional)
		return []string{wp.SrcArg, wp.DstArg, "-list.lst"}
	case "src-dst-v": // "-v" in list position is a file name, not the version flag
		return []string{wp.SrcArg, wp.DstArg, "-v"}
	}
	panic(modelErr("unknown argv shape " + s.Shape))
}

// ---------- expectations (the executable model of the contract) ----------

type expectation struct {
	ErrLine int    // nonzero+pos: the line the in-process parser reports (0: unknown)
	Pin     string // "" (G1/G2 only) | "16" | "17" | "nonzero+pos" | "nonzero" | "0"
	Why     string
	NLines  int
}

func (s *Scenario) srcReadable() bool {
	switch s.SrcKind {
	case "missing", "dir", "dangling", "loop", "longname", "emptyarg", "parent_is_file", "trailing_slash", "socket":
		return false
	case "mode000":
		return s.Uid == 0
	}
	return true
}

func (s *Scenario) dstCreatable() bool {
	switch s.DstKind {
	case "parent_missing", "parent_is_file", "is_dir", "longname", "emptyarg", "trailing_slash", "symlink_loop", "socket":
		return false
	case "ro_file", "ro_dir", "dir_no_search":
		return s.Uid == 0
	case "absent", "":
		if s.fsActive && s.Fs == "tmpfs_noinodes" && s.DstFd == "" && s.SrcKind != "same_as_dst" { // (same_as_dst: the file exists, it is the source)
			return false // no inode left: the file cannot be created
		}
	}
	return true
}

// fsFault: the mounted file system is a fault of its own (full, or out of inodes).
func (s *Scenario) fsFault() bool {
	return s.fsActive && (s.Fs == "tmpfs_full" || s.Fs == "tmpfs_noinodes")
}

// mountFs mounts the requested file system on dir; false when mounting is not possible here (the
// scenario then runs on the scratch file system and is counted as not exercised).
func mountFs(kind, dir string, size int) bool {
	var args []string
	switch kind {
	case "ramfs":
		args = []string{"-t", "ramfs", "-o", "mode=0777", "verifsim", dir}
	case "tmpfs_small", "tmpfs_full":
		args = []string{"-t", "tmpfs", "-o", fmt.Sprintf("size=%d,mode=0777", size), "verifsim", dir}
	case "tmpfs_noinodes":
		args = []string{"-t", "tmpfs", "-o", fmt.Sprintf("size=%d,nr_inodes=48,mode=0777", size), "verifsim", dir} // (room for the clutter names; fillInodes takes the rest)
	default:
		panic(modelErr("unknown fs " + kind))
	}
	pr := runProc(30*time.Second, "/", baseEnv(), append([]string{"mount"}, args...)...)
	return pr.Exit == 0 && pr.StartErr == ""
}

func unmountFs(dir string) {
	for i := 0; i < 3; i++ {
		if err := syscall.Unmount(dir, syscall.MNT_DETACH); err != nil {
			return
		}
	}
}

// unmountUnder detaches every mount below root (scratch directories of killed runs).
func unmountUnder(root string) {
	b, err := os.ReadFile("/proc/self/mounts")
	if err != nil {
		return
	}
	var pts []string
	for _, l := range strings.Split(string(b), "\n") {
		f := strings.Fields(l)
		if len(f) >= 2 && strings.HasPrefix(f[1], root+"/") {
			pts = append(pts, f[1])
		}
	}
	for i := len(pts) - 1; i >= 0; i-- {
		syscall.Unmount(pts[i], syscall.MNT_DETACH)
	}
}

// fillBlocks writes path until the file system has no free block left.
func fillBlocks(path string) {
	f, err := os.OpenFile(path, os.O_WRONLY|os.O_CREATE|os.O_TRUNC, 0644)
	if err != nil {
		return
	}
	defer f.Close()
	for _, n := range []int{4096, 512, 64, 1} {
		buf := bytes.Repeat([]byte{0xF1}, n)
		for i := 0; i < 1<<16; i++ {
			if _, err := f.Write(buf); err != nil {
				break
			}
		}
	}
}

// fillInodes creates empty files in dir until no inode is left.
func fillInodes(dir string) {
	for i := 0; i < 4096; i++ {
		f, err := os.OpenFile(filepath.Join(dir, fmt.Sprintf(".ino%04d", i)), os.O_WRONLY|os.O_CREATE|os.O_EXCL, 0644)
		if err != nil {
			return
		}
		f.Close()
	}
}

// faultMakesSrcUnreadable / faultMakesDstUncreatable: an injected error that actually fired on
// the stat/open/read of the source, or on the first open of the destination, is exactly "the
// source cannot be read" / "the output cannot be created" of the statement (EINTR excepted: the
// Go runtime retries it, so nothing failed).
func (s *Scenario) faultMakesSrcUnreadable(fired int) bool {
	f := s.Fault
	return f != nil && fired > 0 && f.Kind == "strace" && f.Target == "src" && f.Errno != "EINTR" && (f.Syscall == "newfstatat" || f.Syscall == "openat" || f.Syscall == "read")
}

func (s *Scenario) faultMakesDstUncreatable(fired int) bool {
	f := s.Fault
	return f != nil && fired > 0 && f.Kind == "strace" && f.Target == "dst" && f.Errno != "EINTR" && f.Syscall == "openat" && f.When == 1
}

func (s *Scenario) expect(imageClass string, nlines int, fired int) expectation {
	e := expectation{NLines: nlines}
	srcFault, dstFault := s.faultMakesSrcUnreadable(fired), s.faultMakesDstUncreatable(fired)
	if s.Fault != nil && !srcFault && !dstFault {
		e.Why = "fault plan active: only G1/G2"
		return e
	}
	if s.fsActive && s.Fs == "tmpfs_full" {
		e.Why = "no free block on the output file system: only G1/G2"
		return e
	}
	if s.fsFault() && s.DstFd != "" {
		e.Why = "the shell that opens the descriptor cannot create the file either: only G1/G2"
		return e
	}
	if s.Stdout == "deadpipe" {
		e.Why = "stdout is a pipe without reader: the process may be killed by SIGPIPE, which is outside the contract: only G1/G2"
		return e
	}
	if (s.SrcKind == "same_as_dst" || s.DstKind == "hardlink_to_src" || s.DstKind == "symlink_to_src") && (srcFault || dstFault) {
		e.Why = "fault on a path that is both source and destination: only G1/G2"
		return e
	}
	switch s.Shape {
	case "none", "src", "d-only", "d-src":
		e.Pin, e.Why = "16", "R1: fewer than two positionals (the -d switch is not a file argument)"
		return e
	case "src-dst", "d-src-dst": // -d only adds logging: the same contract applies
	case "src-dst-dashlst":
	case "src-dst-lst":
		if s.LstKind != "ok" && s.LstKind != "same_as_dst" && s.LstKind != "existing" && s.LstKind != "same_as_src" {
			e.Why = "third positional not creatable: only G1/G2"
			return e
		}
	default:
		e.Why = "argv shape " + s.Shape + " not pinned by the statement: only G1/G2"
		return e
	}
	if s.DstKind == "dev_full" {
		e.Why = "/dev/full: status after a write failure is not pinned"
		return e
	}
	var clauses []string
	if !s.srcReadable() || srcFault {
		clauses = append(clauses, "17")
	} else if imageClass == "parse_error" {
		clauses = append(clauses, "nonzero+pos")
	} else if imageClass != "ok" {
		e.Why = "program is not assembled normally by the in-process API (" + imageClass + "): only G1/G2"
		return e
	}
	if !s.dstCreatable() || dstFault {
		clauses = append(clauses, "17")
	}
	switch {
	case len(clauses) == 0:
		e.Pin, e.Why = "0", "R5: everything fine"
	case len(clauses) == 1:
		e.Pin, e.Why = clauses[0], "R2/R3/R4: single failing clause"
	case clauses[0] == "17" && clauses[1] == "17":
		e.Pin, e.Why = "17", "R2+R4: both clauses give 17"
	default:
		e.Pin, e.Why = "nonzero", "two clauses apply: any non-zero status"
	}
	return e
}

// A position is accepted in any of the usual spellings: "12:7", "line 12", "12行".
var posRe = regexp.MustCompile(`(\d+):\d+|(?i:line)\s*(\d+)|(\d+)\s*行`)

// judge applies G1, G2 and the pinned status. image may be nil when imageClass != ok.
func judge(s *Scenario, e expectation, o *ScenarioOutcome, image []byte, imageClass string) *Violation {
	mk := func(class, detail, exp, obs string) *Violation {
		return &Violation{Property: "C19", Class: class, Detail: detail, Expected: exp, Observed: obs}
	}
	imgDesc := "n/a"
	if imageClass == "ok" {
		imgDesc = fmt.Sprintf("file:%s:%d", shaHex(image), len(image))
	}
	if s.DstKind == "dev_null" {
		// nothing can be read back; only the pinned status (R5: exit 0) applies
	} else if s.DstKind == "dev_full" {
		if o.Exit == 0 && imageClass == "ok" && len(image) > 0 && (s.Shape == "src-dst" || s.Shape == "src-dst-lst" || s.Shape == "d-src-dst" || s.Shape == "four" || s.Shape == "src-dst-dashlst" || s.Shape == "src-dst-v") && s.srcReadable() {
			return mk("G1-exit0-without-image", "exit 0 although the image cannot have been written to /dev/full", "non-zero status", "exit 0")
		}
	} else {
		writes := s.Shape == "src-dst" || s.Shape == "src-dst-lst" || s.Shape == "d-src-dst" || s.Shape == "four" || s.Shape == "badflag" || s.Shape == "src-dst-dashlst" || s.Shape == "src-dst-v"
		if o.Exit == 0 && writes {
			// G1: success means exactly the image
			if imageClass == "ok" && o.DstPost != imgDesc {
				return mk("G1-exit0-wrong-output", "exit status 0 but the output file does not hold exactly the bytes the in-process API assembles from the comment-free form", imgDesc, o.DstPost)
			}
			if strings.HasPrefix(imageClass, "abnormal") {
				return mk("G1-exit0-without-assembly", "exit status 0 although the in-process API does not assemble this source (it panics or exits): success was reported for an assembly that failed", "non-zero status", fmt.Sprintf("exit 0, dst %s, in-process: %s", o.DstPost, imageClass))
			}
			if imageClass == "parse_error" {
				return mk("G1-exit0-on-parse-error", "exit status 0 although the source does not parse", "non-zero status with a position", fmt.Sprintf("exit 0, dst %s", o.DstPost))
			}
		}
		if o.Exit != 0 {
			// G2: failure never leaves a partially assembled image
			ok := o.DstPost == o.DstPre || o.DstPost == "absent" || strings.HasSuffix(o.DstPost, ":0") && strings.HasPrefix(o.DstPost, "file:") || (imageClass == "ok" && o.DstPost == imgDesc)
			if !ok {
				kind := "other-content"
				if imageClass == "ok" && strings.HasPrefix(o.DstPost, "file:") {
					b, err := o.dstCollected, error(nil)
					if !o.dstIsFifo {
						b, err = os.ReadFile(o.dstAbsForJudge)
					}
					if err == nil && len(b) < len(image) && bytes.Equal(b, image[:len(b)]) {
						kind = "proper-prefix"
					} else if err == nil && len(b) > len(image) && bytes.Equal(b[:len(image)], image) {
						kind = "image-plus-stale-tail"
					}
				}
				o.PartialKind = kind
				v := mk("G2-partial-image", fmt.Sprintf("the run failed (exit %d) and left a partially assembled / foreign image in the output file (%s); allowed: unchanged, absent, empty, or the full image", o.Exit, kind),
					"dst in {"+o.DstPre+", absent, empty, "+imgDesc+"}", o.DstPost)
				return v
			}
		}
	}
	switch e.Pin {
	case "16", "17":
		if strconv.Itoa(o.Exit) != e.Pin {
			return mk("R-exit-status", e.Why, "exit "+e.Pin, fmt.Sprintf("exit %d; output: %s", o.Exit, clipS(o.Output, 160)))
		}
	case "0":
		if o.Exit != 0 {
			return mk("R5-success-expected", e.Why+"; CLI failed where the in-process API assembles the comment-free form", "exit 0", fmt.Sprintf("exit %d; output: %s", o.Exit, clipS(o.Output, 200)))
		}
	case "nonzero":
		if o.Exit == 0 {
			return mk("R-exit-status", e.Why, "non-zero", "exit 0")
		}
	case "nonzero+pos":
		if o.Exit == 0 {
			return mk("R3-parse-error-status", "source does not parse but exit status is 0", "non-zero", "exit 0")
		}
		if s.Stdout != "" {
			break // the message went to a closed / full stdout: nothing to read the position from
		}
		okPos := false
		for _, ln := range o.PosLines {
			if ln >= 1 && ln <= e.NLines+1 {
				okPos = true
				break
			}
		}
		if okPos && e.ErrLine > 0 { // comments never move a statement to another line: the line must be the parser's
			same := false
			for _, ln := range o.PosLines {
				if ln == e.ErrLine {
					same = true
					break
				}
			}
			if !same {
				// Recorded, not gating: the statement asks for "a message giving the position", and gosk's
				// grammar has quirks (an identifier that begins with a mnemonic, e.g. WAIT_X:, is not a label)
				// under which a comment legitimately moves the furthest-failure point of an already
				// unparseable source to another line.
				o.LineMismatch = fmt.Sprintf("reported lines %v, comment-free form fails on line %d", o.PosLines, e.ErrLine)
			}
		}
		if !okPos {
			return mk("R3-parse-error-position", "parse error reported without a position (line number) inside the file", fmt.Sprintf("a position such as line:col with 1<=line<=%d", e.NLines+1), clipS(o.Output, 200))
		}
	}
	return nil
}

func clipS(s string, n int) string {
	if len(s) > n {
		return s[:n] + "..."
	}
	return s
}

// ---------- running ----------

type c19Ctx struct {
	sim      *simCtx
	imgMu    sync.Mutex
	imgCache map[string]*imgEntry
}

type imgEntry struct {
	once          sync.Once
	class         string
	bytes         []byte
	errLine       int  // parse_error: the line the in-process parser reports for the comment-free form
	writerDiffers bool // flat: the file written in-process differs from the machine code in memory
}

// imageOf assembles the comment-free form through the in-process API (native worker).
func (c *c19Ctx) imageOf(plain []byte) (string, []byte) {
	key := shaHex(plain)
	c.imgMu.Lock()
	e := c.imgCache[key]
	if e == nil {
		e = &imgEntry{}
		c.imgCache[key] = e
	}
	c.imgMu.Unlock()
	e.once.Do(func() {
		spec := &RunSpec{Variant: "native", ProgKeys: []string{key}}
		spec.Script = Script{Sources: []string{base64.StdEncoding.EncodeToString(plain)}, Paths: []string{"image.out"}, Ops: []Op{{Op: "parse", P: 0, T: 0}, {Op: "exec", T: 0, D: 0, Kind: "mc"}}}
		var img, mc []byte
		haveMc := false
		res := c.sim.runSpecKeep(spec, func(dir string, sc *Script) {
			img, _ = os.ReadFile(filepath.Join(dir, "image.out"))
			if b, err := os.ReadFile(filepath.Join(dir, "image.out.mc")); err == nil {
				mc, haveMc = b, true
			}
		})
		o, _ := refOutcomeOf(res)
		switch {
		case o.ParseClass == "parse_error":
			e.class = "parse_error"
			for _, j := range res.Journal {
				if j.Op == "parse" && !j.Begin {
					if m := posRe.FindStringSubmatch(j.Msg); m != nil {
						e.errLine, _ = strconv.Atoi(m[1] + m[2] + m[3])
					}
				}
			}
		case o.ParseClass == "ok" && o.ExecClass == "ok":
			e.class, e.bytes = "ok", img
			if shaHex(img) != o.Sha {
				infraFail("image read-back mismatch")
			}
			// flat format: "the assembled bytes" are the machine code; if the in-process file writer
			// does not reproduce them, the machine code is the reference (the CLI run will then differ)
			if haveMc && !isCoffSource(plain) && !bytes.Equal(mc, img) {
				e.bytes = mc
				e.writerDiffers = true
			}
		default:
			e.class = "abnormal:" + o.ParseClass + "/" + o.ExecClass
		}
	})
	return e.class, e.bytes
}

func (o *ScenarioOutcome) setDstAbs(p string) { o.dstAbsForJudge = p }

// errLineOf returns the line of the parse error of the comment-free form (0 if unknown).
func (c *c19Ctx) errLineOf(plain []byte) int {
	c.imgMu.Lock()
	e := c.imgCache[shaHex(plain)]
	c.imgMu.Unlock()
	if e == nil {
		return 0
	}
	return e.errLine
}

const cliWatchdog = 90 * time.Second

// hangErr: the command was still running when the watchdog expired.
type hangErr string

func (e hangErr) Error() string { return string(e) }

func (c *c19Ctx) execute(s *Scenario, keepDir bool) (out *ScenarioOutcome, viol *Violation, err error) {
	defer func() {
		if r := recover(); r != nil {
			if me, ok := r.(modelErr); ok {
				err = me
				return
			}
			if he, ok := r.(hangErr); ok {
				err = he
				return
			}
			panic(r)
		}
	}()
	t0 := time.Now()
	src, plain := s.materialise()
	imageClass, image := c.imageOf(plain)
	dir := c.sim.newRunDir()
	if !keepDir {
		defer func() {
			// make everything removable again
			filepath.Walk(dir, func(p string, info os.FileInfo, err error) error {
				if err == nil && info.IsDir() {
					os.Chmod(p, 0777)
				}
				return nil
			})
			os.RemoveAll(dir)
		}()
	}
	if s.Fs != "" {
		defer unmountFs(filepath.Join(dir, "w", "out")) // registered last: runs before the directory is removed
	}
	os.Chmod(dir, 0777)
	W := filepath.Join(dir, "w")
	s.fsActive = false
	wp, _ := s.buildWorld(W, src, image)
	s.fsActive = wp.fsMounted
	argv := s.argv(wp)
	out = &ScenarioOutcome{Argv: argv, ImageClass: imageClass, ImageLen: len(image)}
	if imageClass == "ok" {
		out.ImageSha = shaHex(image)
	}
	out.setDstAbs(wp.DstAbs)
	if s.Fs != "" {
		out.FsMounted = fmt.Sprint(wp.fsMounted)
	}
	if s.DstKind != "dev_full" && s.DstKind != "dev_null" {
		out.DstPre = describePath(wp.DstAbs)
	} else {
		out.DstPre = s.DstKind
	}
	if wp.dstIsFifo {
		out.DstPre = fmt.Sprintf("file:%s:%d", shaHex(nil), 0) // nothing delivered yet
	}
	pre := snapshotWorld(W)
	run := func(f *Fault) (ProcResult, int, []string) {
		var cmd []string
		logp := filepath.Join(dir, "strace.log")
		os.Remove(logp)
		if s.Uid != 0 {
			cmd = append(cmd, "setpriv", fmt.Sprintf("--reuid=%d", s.Uid), fmt.Sprintf("--regid=%d", s.Uid), "--clear-groups")
		}
		if f != nil {
			switch f.Kind {
			case "fsize":
				cmd = append(cmd, "prlimit", fmt.Sprintf("--fsize=%d", f.K))
			case "nofile":
				cmd = append(cmd, "prlimit", fmt.Sprintf("--nofile=%d", f.K))
			case "trace": // no fault: record the syscalls the run makes on source and destination
				sa, da := wp.SrcArg, wp.DstArg
				if !filepath.IsAbs(sa) {
					sa = filepath.Join(W, sa)
				}
				if !filepath.IsAbs(da) {
					da = filepath.Join(W, da)
				}
				cmd = append(cmd, "strace", "-f", "-o", logp, "-e", "trace="+tracedSyscalls, "-P", sa, "-P", da)
			case "strace":
				target := wp.SrcArg
				if f.Target == "dst" {
					target = wp.DstArg
				}
				if !filepath.IsAbs(target) {
					target = filepath.Join(W, target)
				}
				cmd = append(cmd, "strace", "-f", "-o", logp, "-e", "trace="+tracedSyscalls,
					"-e", fmt.Sprintf("inject=%s:error=%s:when=%d", f.Syscall, f.Errno, f.When), "-P", target)
			}
		}
		bin := c.sim.b.Cli
		if s.Argv0 != "" {
			ln := filepath.Join(dir, s.Argv0)
			os.Remove(ln)
			if err := os.Symlink(bin, ln); err == nil {
				bin = ln
			}
		}
		if s.Stdin == "closed" {
			cmd = append(cmd, "/bin/sh", "-c", `exec "$@" <&-`, "sh")
		}
		if wp.dstFdPath != "" {
			cmd = append(cmd, "/bin/sh", "-c", `exec 7<>"$0" && exec "$@"`, wp.dstFdPath)
		}
		switch s.Stdout {
		case "closed":
			cmd = append(cmd, "/bin/sh", "-c", `exec "$@" >&-`, "sh")
		case "devfull":
			cmd = append(cmd, "/bin/sh", "-c", `exec "$@" >/dev/full`, "sh")
		}
		cmd = append(cmd, bin)
		cmd = append(cmd, argv...)
		out.Cmdline = cmd
		var feederDone chan struct{}
		if wp.isFifo {
			feederDone = make(chan struct{})
			go func() { // blocks in open until gosk opens the pipe for reading
				defer close(feederDone)
				if f, err := os.OpenFile(wp.SrcAbs, os.O_WRONLY, 0); err == nil {
					// the text arrives in pieces, as from a slow producer: the reader sees several short reads
					data := wp.fifoData
					pieces := int(s.Seed%4) + 1
					for i := 0; i < pieces; i++ {
						lo, hi := len(data)*i/pieces, len(data)*(i+1)/pieces
						f.Write(data[lo:hi])
						if i < pieces-1 {
							time.Sleep(3 * time.Millisecond)
						}
					}
					f.Close()
				}
			}()
		}
		var sinkDone chan struct{}
		var sunk []byte
		var sinkF *os.File
		if wp.dstIsFifo {
			// the harness holds both ends of the pipe for the whole run: whatever the command's pattern of
			// opens and closes, a reader is always there and never sees end of file early
			if f, err := os.OpenFile(wp.DstAbs, os.O_RDWR, 0); err == nil {
				sinkF = f
				sinkDone = make(chan struct{})
				go func() {
					defer close(sinkDone)
					buf := make([]byte, 1<<16)
					for {
						n, err := f.Read(buf)
						sunk = append(sunk, buf[:n]...)
						if err != nil {
							return
						}
					}
				}()
			}
		}
		cwd := W
		switch s.Cwd {
		case "root":
			cwd = "/"
		case "readonly":
			cwd = filepath.Join(dir, "rocwd")
			os.Mkdir(cwd, 0555)
		}
		pr := runProcOpts(cliWatchdog, cwd, baseEnv(append([]string{"GOMAXPROCS=1", "HOME=/nonexistent"}, s.Env...)...), wp.stdinData, s.Stdout == "deadpipe", cmd...)
		if pr.TimedOut && !wp.isFifo {
			// a loaded machine, not necessarily a hang: one more try with four times the budget
			pr = runProcOpts(4*cliWatchdog, cwd, baseEnv(append([]string{"GOMAXPROCS=1", "HOME=/nonexistent"}, s.Env...)...), wp.stdinData, s.Stdout == "deadpipe", cmd...)
		}
		if feederDone != nil {
			// release a feeder that nobody read from (gosk never opened the source)
			if rf, err := os.OpenFile(wp.SrcAbs, os.O_RDONLY|syscall.O_NONBLOCK, 0); err == nil {
				<-feederDone
				rf.Close()
			} else {
				<-feederDone
			}
		}
		if sinkDone != nil {
			// the command has ended: take what is still in the pipe, then stop reading
			if err := sinkF.SetReadDeadline(time.Now().Add(300 * time.Millisecond)); err != nil {
				time.Sleep(300 * time.Millisecond)
				sinkF.Close()
			}
			<-sinkDone
			sinkF.Close()
			out.dstCollected, out.dstIsFifo = sunk, true
		}
		if pr.TimedOut {
			// not a verdict (a process that has not ended has no status to judge) and not a reason to stop:
			// the scenario is counted as inconclusive and the run goes on
			js, _ := json.Marshal(s)
			panic(hangErr(fmt.Sprintf("gosk CLI watchdog expired: %v\nscenario: %s", cmd, clip(js, 3000))))
		}
		if pr.StartErr != "" {
			infraFail("cannot start %v: %s", cmd, pr.StartErr)
		}
		fired := 0
		var lines []string
		if f != nil && f.Kind == "trace" {
			b, err := os.ReadFile(logp)
			if err != nil {
				infraFail("strace log missing: %v", err)
			}
			out.Trace = parseTrace(string(b), wp)
		}
		if f != nil && f.Kind == "strace" {
			if b, err := os.ReadFile(logp); err == nil {
				for _, l := range strings.Split(string(b), "\n") {
					if strings.Contains(l, "(INJECTED)") {
						fired++
						lines = append(lines, clipS(l, 200))
					}
				}
			} else {
				infraFail("strace log missing: %v (stderr %s)", err, clip(pr.Stderr, 300))
			}
		}
		return pr, fired, lines
	}
	pr, fired, flines := run(s.Fault)
	out.Exit, out.Signal = pr.Exit, pr.Signal
	// stdout then stderr; for long outputs (-d prints a parser trace) keep the head and the tail:
	// diagnostics such as the parse error are printed last
	full := append(append([]byte{}, pr.Stdout...), pr.Stderr...)
	if len(pr.Stdout) > 2400 {
		full = append(append(append([]byte{}, pr.Stdout[:600]...), []byte("\n...[clipped]...\n")...), pr.Stdout[len(pr.Stdout)-1500:]...)
		full = append(full, pr.Stderr...)
	}
	out.Output = clip(full, 4000)
	// positions are looked for in the complete output (the message can be longer than the clip)
	seenLn := map[int]bool{}
	for _, m := range posRe.FindAllSubmatch(append(append([]byte{}, pr.Stdout...), pr.Stderr...), -1) {
		if ln, err := strconv.Atoi(string(m[1]) + string(m[2]) + string(m[3])); err == nil && !seenLn[ln] && len(out.PosLines) < 4000 {
			seenLn[ln] = true
			out.PosLines = append(out.PosLines, ln)
		}
	}
	out.FaultFired, out.FaultLines = fired, flines
	if s.Fault != nil && (s.Fault.Kind == "fsize" || s.Fault.Kind == "nofile") {
		// an rlimit "fires" when the outcome differs from plain success
		if pr.Exit != 0 {
			out.FaultFired = 1
		}
	}
	if s.fsFault() && pr.Exit != 0 {
		out.FaultFired = 1
	}
	if s.DstKind != "dev_full" && s.DstKind != "dev_null" {
		out.DstPost = describePath(wp.DstAbs)
	} else {
		out.DstPost = s.DstKind
	}
	if wp.dstIsFifo {
		out.DstPost = fmt.Sprintf("file:%s:%d", shaHex(out.dstCollected), len(out.dstCollected))
	}
	post := snapshotWorld(W)
	dstRel, _ := filepath.Rel(W, wp.DstAbs)
	for k, v := range post {
		if pre[k] != v && k != dstRel && !(s.DstKind == "symlink_file" && k == "out/target.bin") && !(s.DstKind == "dangling_symlink" && k == "out/newtarget.bin") && k != "out" && k != "." {
			out.WorldChanges = append(out.WorldChanges, k+": "+pre[k]+" -> "+v)
		}
	}
	for k, v := range pre {
		if _, ok := post[k]; !ok && k != dstRel {
			out.WorldChanges = append(out.WorldChanges, k+": "+v+" -> gone")
		}
	}
	sort.Strings(out.WorldChanges)
	nlines := bytes.Count(src, []byte("\n")) + 1
	e := s.expect(imageClass, nlines, out.FaultFired)
	e.ErrLine = c.errLineOf(plain)
	out.Expect = e.Pin + " (" + e.Why + ")"
	if pr.Signal != "" {
		// killed by a signal: the process chose no status; record, judge by G2 only
		out.Expect += " [terminated by signal " + pr.Signal + "]"
	}
	viol = judge(s, e, out, image, imageClass)
	// heal step: once the fault stops, the same command must succeed on the world left behind
	if viol == nil && (s.Fault != nil || s.fsFault()) && s.SrcKind != "same_as_dst" && s.DstKind != "hardlink_to_src" && s.DstKind != "symlink_to_src" { // (with src == dst the first run consumed its own source)
		s2 := *s
		s2.Fault = nil
		if s.fsFault() { // the fault stops: blocks and inodes are available again
			s2.fsActive = false
			if ents, err := os.ReadDir(filepath.Join(W, "out")); err == nil {
				for _, en := range ents {
					if en.Name() == ".filler" || strings.HasPrefix(en.Name(), ".ino") {
						os.Remove(filepath.Join(W, "out", en.Name()))
					}
				}
			}
		}
		e2 := s2.expect(imageClass, nlines, 0)
		if e2.Pin == "0" {
			pr2, _, _ := run(nil)
			hx := pr2.Exit
			out.HealExit = &hx
			out.HealDstPost = describePath(wp.DstAbs)
			if wp.dstIsFifo {
				out.HealDstPost = fmt.Sprintf("file:%s:%d", shaHex(out.dstCollected), len(out.dstCollected))
			}
			imgDesc := fmt.Sprintf("file:%s:%d", shaHex(image), len(image))
			if s.DstKind == "dev_null" {
				out.HealDstPost = imgDesc
			}
			if pr2.Exit != 0 || out.HealDstPost != imgDesc {
				viol = &Violation{Property: "C19", Class: "H-no-recovery-after-fault", Detail: "after a faulted run, the same command run fault-free on the world left behind did not succeed with exactly the image",
					Expected: "exit 0, " + imgDesc, Observed: fmt.Sprintf("exit %d, %s; output: %s", pr2.Exit, out.HealDstPost, clip(append(pr2.Stdout, pr2.Stderr...), 200))}
			}
		}
	}
	out.WallMs = time.Since(t0).Milliseconds()
	return out, viol, nil
}

// Every file syscall an implementation of the output/input path might use, so that the fault
// grid (derived from the fault-free trace) follows the implementation if it changes.
const tracedSyscalls = "openat,read,pread64,write,pwrite64,writev,newfstatat,fstat,close,ftruncate,fsync,fdatasync,lseek,rename,renameat,renameat2,unlink,unlinkat,linkat,symlinkat,fchmod,fchmodat,mkdirat"

var traceRe = regexp.MustCompile(`^\d+\s+(openat|read|pread64|write|pwrite64|writev|newfstatat|fstat|close|ftruncate|fsync|fdatasync|lseek|rename|renameat|renameat2|unlink|unlinkat|linkat|symlinkat|fchmod|fchmodat|mkdirat)\((.*)$`)
var traceRetRe = regexp.MustCompile(`=\s+(-?\d+)`)

// parseTrace turns a strace log (filtered with -P source -P destination) into the ordered list of
// "target:syscall" events, following file descriptors back to the path they were opened on.
func parseTrace(log string, wp *worldPaths) []string {
	var ev []string
	fds := map[string]string{}
	esc := strings.NewReplacer(`\`, `\\`, `"`, `\"`) // as strace prints them
	srcA, dstA := esc.Replace(wp.SrcArg), esc.Replace(wp.DstArg)
	for _, l := range strings.Split(log, "\n") {
		m := traceRe.FindStringSubmatch(l)
		if m == nil {
			continue
		}
		sys, rest := m[1], m[2]
		target := ""
		switch sys {
		case "openat", "newfstatat", "rename", "renameat", "renameat2", "unlink", "unlinkat", "linkat", "symlinkat", "fchmodat", "mkdirat":
			if strings.Contains(rest, "\""+filepath.Base(srcA)+"\"") || strings.Contains(rest, srcA+"\"") {
				target = "src"
			}
			if strings.Contains(rest, dstA+"\"") {
				target = "dst"
			}
			if sys == "openat" && target != "" {
				if r := traceRetRe.FindAllStringSubmatch(rest, -1); len(r) > 0 {
					fds[r[len(r)-1][1]] = target
				}
			}
		default:
			fd := rest
			if i := strings.IndexAny(fd, ",)"); i >= 0 {
				fd = fd[:i]
			}
			target = fds[fd]
			if sys == "close" {
				delete(fds, fd)
			}
		}
		if target != "" {
			ev = append(ev, target+":"+sys)
		}
	}
	return ev
}

func isCoffSource(src []byte) bool { return bytes.Contains(src, []byte("WCOFF")) }
