package main

type Scenario struct{}
type ScenarioOutcome struct{}

func runC19(tier string) int                    { return 2 }
func replayC19(rf *ReplayFile, path string) int { return 2 }
