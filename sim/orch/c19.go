package main

type Scenario struct{}
type ScenarioOutcome struct{}

func runC19(tier string) int { return 2 }
