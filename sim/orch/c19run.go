package main

import (
	"encoding/base64"
	"encoding/json"
	"fmt"
	"os"
	"path/filepath"
	"sort"
	"strings"
	"sync"
	"time"
)

type c19Tier struct {
	name    string
	nRandom int
	nGen    int
	grid    string // reduced | full
	budget  time.Duration
}

func c19TierOf(name string) c19Tier {
	switch name {
	case "quick":
		return c19Tier{name: name, nRandom: envInt("VERIF_C19_N", 900), nGen: 16, grid: "reduced", budget: time.Duration(envInt("VERIF_BUDGET_S", 150)) * time.Second}
	case "thorough":
		return c19Tier{name: name, nRandom: envInt("VERIF_C19_N", 30000), nGen: 120, grid: "full", budget: time.Duration(envInt("VERIF_BUDGET_S", 1500)) * time.Second}
	}
	infraFail("unknown tier %q", name)
	return c19Tier{}
}

type c19Prog struct {
	Name         string
	Header, Body []string
	RawUTF8      []byte // corpus original (UTF-8 comments), nil for generated
	RawSJIS      []byte
	Coff         bool
}

func loadC19Progs(baseSeed uint64, nGen int) []*c19Prog {
	var out []*c19Prog
	cdir := filepath.Join(verifDir(), "corpus")
	for _, p := range loadCorpus(cdir) {
		sj, err := os.ReadFile(filepath.Join(verifDir(), "corpus_sjis", p.Name))
		if err != nil {
			infraFail("corpus_sjis: %v", err)
		}
		lines := plainLinesOfRaw(p.Raw)
		out = append(out, &c19Prog{Name: p.Name, Body: lines, RawUTF8: p.Raw, RawSJIS: sj, Coff: p.Coff})
	}
	r := NewRNG(deriveSeed(baseSeed, 501, 0))
	for i := 0; i < nGen; i++ {
		ps := genProgram(r, fmt.Sprintf("gen%04d", i), false, false)
		p := ps[0]
		if len(p.Body) > 60 {
			p.Body = p.Body[:60]
		}
		out = append(out, &c19Prog{Name: p.Name, Header: p.Header, Body: p.Body, Coff: p.Coff})
	}
	// two tiny fixed programs for the fault grid
	out = append(out, &c19Prog{Name: "grid_flat", Header: []string{"\tORG\t0x7c00"}, Body: []string{"entry:", "\tMOV\tAX,0", "\tMOV\tSS,AX", "\tMOV\tSI,msg", "putloop:", "\tMOV\tAL,[SI]", "\tADD\tSI,1", "\tCMP\tAL,0", "\tJE\tfin", "\tMOV\tAH,0x0e", "\tINT\t0x10", "\tJMP\tputloop", "fin:", "\tHLT", "\tJMP\tfin", "msg:", "\tDB\t0x0a, 0x0a", "\tDB\t\"hello, world\"", "\tDB\t0x0a", "\tDB\t0", "\tRESB\t40"}})
	out = append(out, &c19Prog{Name: "grid_coff", Coff: true, Header: []string{`[FORMAT "WCOFF"]`, `[INSTRSET "i486p"]`, "[BITS 32]", `[FILE "naskfunc.nas"]`},
		Body: []string{"\tGLOBAL\t_io_hlt, _io_cli, _io_out8, _io_load_eflags_long_name", "[SECTION .text]", "_io_hlt:", "\tHLT", "\tRET", "_io_cli:", "\tCLI", "\tRET", "_io_out8:", "\tMOV\tEDX,[ESP+4]", "\tMOV\tAL,[ESP+8]", "\tOUT\tDX,AL", "\tRET", "_io_load_eflags_long_name:", "\tPUSHFD", "\tPOP\tEAX", "\tRET"}})
	// sources without any statement
	out = append(out, &c19Prog{Name: "only_blank_lines", Body: []string{"", "", ""}})
	out = append(out, &c19Prog{Name: "only_one_newline", Body: []string{""}})
	// sources that parse but fail late, after frontend.Exec has opened the output: a panic in code
	// generation (INT with a vector >= 0x80) and a pass-2 failure (jump to a label containing '.')
	lateBody := []string{"entry:", "\tMOV\tAX,1", "\tMOV\tBX,2", "\tDB\t1, 2, 3, 4, 5, 6, 7, 8", "\tDD\t0x12345678, 0x9abcdef0", "\tRESB\t64"}
	out = append(out, &c19Prog{Name: "late_panic", Header: []string{"\tORG\t0x7c00"}, Body: append(append([]string{}, lateBody...), "\tINT\t0x80", "\tHLT")})
	out = append(out, &c19Prog{Name: "late_pass2", Header: []string{"\tORG\t0x7c00"}, Body: append(append([]string{}, lateBody...), ".loop:", "\tJMP\t.loop", "\tHLT")})
	out = append(out, &c19Prog{Name: "late_panic_coff", Coff: true, Header: []string{`[FORMAT "WCOFF"]`, "[BITS 32]", `[FILE "late.nas"]`}, Body: append(append([]string{"\tGLOBAL\tentry", "[SECTION .text]"}, lateBody...), "\tINT\t0x80", "\tRET")})
	// boundary sizes: images of exactly 0, 1, a block, a buffer, many buffers
	for _, n := range []int{0, 1, 511, 512, 513, 4095, 4096, 4097, 65535, 65536, 65537, 131072, 196608} {
		out = append(out, &c19Prog{Name: fmt.Sprintf("bnd_resb_%d", n), Body: []string{fmt.Sprintf("\tRESB\t%d", n)}})
	}
	out = append(out, &c19Prog{Name: "bnd_rom128k", Header: []string{"\tORG\t0"}, Body: []string{"\tDB\t0xeb, 0xfe", "\tRESB\t0x20000-$"}})
	out = append(out, &c19Prog{Name: "bnd_data64k", Body: []string{"\tRESB\t65535", "\tDB\t0x55"}})
	out = append(out, &c19Prog{Name: "bnd_labels_only", Body: []string{"a:", "b:", "X\tEQU\t5"}})
	// larger images: implementations that write in blocks show several write calls in the trace
	var bigBody []string
	bigBody = append(bigBody, "start:")
	for i := 0; i < 66; i++ { // 66 lines of 32 data bytes: a 2 KiB image from few statements
		vals := make([]string, 32)
		for k := range vals {
			vals[k] = fmt.Sprint((i*31+k*7)%251 + 1)
		}
		bigBody = append(bigBody, "\tDB\t"+strings.Join(vals, ", "))
		if i%16 == 15 {
			bigBody = append(bigBody, fmt.Sprintf("\tMOV\tAX,%d", i+1), "\tADD\tAX,BX")
		}
	}
	bigBody = append(bigBody, "fin:", "\tHLT", "\tJMP\tfin")
	out = append(out, &c19Prog{Name: "grid_flat_big", Header: []string{"\tORG\t0x7c00"}, Body: bigBody})
	out = append(out, &c19Prog{Name: "grid_coff_big", Coff: true, Header: []string{`[FORMAT "WCOFF"]`, `[INSTRSET "i486p"]`, "[BITS 32]", `[FILE "big.nas"]`},
		Body: append([]string{"\tGLOBAL\tstart, fin", "[SECTION .text]"}, bigBody...)})
	return out
}

var errnos = []string{"ENOSPC", "EIO", "EACCES", "EMFILE", "ENFILE", "EROFS", "EDQUOT", "ENOMEM", "EINTR"}

type site struct{ target, syscall string }

var sites = []site{{"src", "newfstatat"}, {"src", "openat"}, {"src", "fstat"}, {"src", "read"}, {"src", "close"}, {"dst", "openat"}, {"dst", "write"}, {"dst", "write"}, {"dst", "close"}}

var allSrcKinds = []string{"file", "missing", "dir", "mode000", "symlink_ok", "dangling", "loop", "spacename", "nonascii_name", "longname", "same_as_dst", "emptyarg", "fifo", "stdin", "relative", "dotslash", "barename", "dotdot_via_symlink", "other_readable", "parent_is_file", "trailing_slash", "socket"}
var allDstKinds = []string{"absent", "empty", "shorter", "equal", "longer", "old_image", "ro_file", "ro_dir", "parent_missing", "parent_is_file", "is_dir", "symlink_file", "dangling_symlink", "dev_full", "relative", "dotdot", "longname", "emptyarg", "dev_null", "trailing_slash", "dir_no_search", "hardlink_to_src", "symlink_to_src", "barename", "rw_file_in_ro_dir", "dotdot_via_symlink", "other_writable", "symlink_loop", "fifo", "image_with_tail", "image_prefix", "same_image", "socket"}
var allShapes = []string{"src-dst", "src-dst-lst", "none", "src", "four", "d-src-dst", "d-only", "v", "help", "badflag", "src-dst-dashlst", "src-dst-v", "d-src"}
var allLstKinds = []string{"ok", "parent_missing", "same_as_dst", "existing", "same_as_src", "is_dir", "dev_full", "symlink_to_dst", "symlink_to_src", "ro_existing"}

// kindGrid: every source kind, destination kind (flat and WCOFF), argv shape, list kind, stdout kind,
// encoding and kind of token damage occurs at least once in every run, each combined with otherwise
// plain choices - the random part then adds the combinations.
func kindGrid(progs []*c19Prog, baseSeed uint64) []*Scenario {
	var flat, coff *c19Prog
	for _, p := range progs {
		if p.Name == "grid_flat" {
			flat = p
		}
		if p.Name == "grid_coff" {
			coff = p
		}
	}
	var out []*Scenario
	n := uint64(0)
	mk := func(p *c19Prog, mut func(s *Scenario)) {
		n++
		s := &Scenario{Seed: deriveSeed(baseSeed, 503, n), ProgName: p.Name, Header: p.Header, Body: p.Body, Enc: "ascii", Shape: "src-dst", SrcKind: "file", DstKind: "absent"}
		s.DstPrefillSeed = s.Seed
		mut(s)
		if (s.SrcKind == "mode000" || s.SrcKind == "other_readable" || s.DstKind == "ro_file" || s.DstKind == "ro_dir" || s.DstKind == "dir_no_search" || s.DstKind == "rw_file_in_ro_dir" || s.DstKind == "other_writable") && s.Uid == 0 {
			s2 := *s
			s2.Uid = nobody
			s2.Seed = deriveSeed(baseSeed, 504, n)
			out = append(out, &s2)
		}
		out = append(out, s)
	}
	for _, k := range allSrcKinds {
		k := k
		mk(flat, func(s *Scenario) { s.SrcKind = k })
	}
	for _, k := range allDstKinds {
		k := k
		mk(flat, func(s *Scenario) { s.DstKind = k })
		mk(coff, func(s *Scenario) { s.DstKind = k })
	}
	for _, k := range allShapes {
		k := k
		mk(flat, func(s *Scenario) {
			s.Shape = k
			if k == "src-dst-lst" || k == "four" {
				s.LstKind = "ok"
			}
		})
	}
	for _, k := range allLstKinds {
		k := k
		mk(flat, func(s *Scenario) { s.Shape, s.LstKind = "src-dst-lst", k })
	}
	for _, k := range []string{"closed", "devfull", "deadpipe"} {
		k := k
		mk(flat, func(s *Scenario) { s.Stdout = k })
	}
	for _, e := range []string{"sjis", "utf8"} {
		for v := uint64(1); v <= 3; v++ {
			e, v := e, v
			mk(flat, func(s *Scenario) { s.Enc, s.DecoSeed = e, s.Seed|v })
			mk(coff, func(s *Scenario) { s.Enc, s.DecoSeed, s.CRLF = e, s.Seed|v, v == 2 })
		}
	}
	for brk := 1; brk <= 7; brk++ { // token damage: first / middle / last line, with and without a final newline
		for _, pos := range []int{0, len(flat.Header) + len(flat.Body)/2, len(flat.Header) + len(flat.Body) - 1} {
			for _, nofinal := range []bool{false, true} {
				brk, pos, nofinal := brk, pos, nofinal
				mk(flat, func(s *Scenario) {
					s.Break, s.BreakLine, s.NoFinalNL = brk, pos, nofinal
					s.Enc, s.DecoSeed = "sjis", s.Seed|1
				})
			}
		}
	}
	for _, fs := range []string{"ramfs", "tmpfs_small", "tmpfs_full", "tmpfs_noinodes"} {
		for _, dk := range []string{"absent", "longer", "shorter"} {
			fs, dk := fs, dk
			mk(flat, func(s *Scenario) { s.Fs, s.DstKind = fs, dk })
			mk(coff, func(s *Scenario) { s.Fs, s.DstKind = fs, dk })
		}
		fs := fs
		mk(flat, func(s *Scenario) { s.Fs, s.Uid = fs, nobody })
	}
	for _, fd := range []string{"devfd", "procfd"} {
		for _, dk := range []string{"absent", "longer"} {
			fd, dk := fd, dk
			mk(flat, func(s *Scenario) { s.DstFd, s.DstKind = fd, dk })
			mk(coff, func(s *Scenario) { s.DstFd, s.DstKind = fd, dk })
		}
	}
	for _, e := range []string{"sjis", "utf8"} {
		for _, b := range []int{512, 4096, 8192, 32768, 65536} {
			e, b := e, b
			mk(flat, func(s *Scenario) { s.Enc, s.DecoSeed, s.Straddle, s.Light = e, s.Seed|1, b, true })
			if e == "utf8" {
				mk(flat, func(s *Scenario) { s.Enc, s.DecoSeed, s.Straddle, s.Light = e, s.Seed&^1|2, b, true })
			}
		}
	}
	for _, pfx := range []string{"--", "-d=false", "-d=false --", "--d=false"} {
		pfx := pfx
		mk(flat, func(s *Scenario) { s.ArgPrefix = pfx })
		mk(flat, func(s *Scenario) { s.ArgPrefix, s.SrcKind, s.Seed = pfx, "barename", s.Seed&^1 })
		mk(coff, func(s *Scenario) { s.ArgPrefix, s.Shape, s.LstKind = pfx, "src-dst-lst", "ok" })
		mk(flat, func(s *Scenario) { s.ArgPrefix, s.Shape = pfx, "src" })
	}
	mk(flat, func(s *Scenario) { s.Stdin = "closed" })
	mk(flat, func(s *Scenario) { s.Cwd = "readonly"; s.Uid = nobody })
	mk(flat, func(s *Scenario) { s.Cwd = "root" })
	mk(flat, func(s *Scenario) { s.BOM = true })
	mk(flat, func(s *Scenario) { s.MixedEOL = 7 })
	for _, cl := range []uint64{1 << 40, 1<<40 | 0x1555555, 1<<40 | 0x2aaaaaa} { // helper names taken by directories / read-only files / dangling links
		for _, dk := range []string{"absent", "longer"} {
			cl, dk := cl, dk
			mk(flat, func(s *Scenario) { s.Clutter, s.DstKind = cl, dk })
			mk(coff, func(s *Scenario) { s.Clutter, s.DstKind, s.Uid = cl, dk, nobody })
		}
	}
	// encodings x locales (a locale must never decide how the source is read), with and without a leading comment
	for _, e := range []string{"sjis", "utf8"} {
		for li, loc := range []string{"LANG=ja_JP.UTF-8", "LC_ALL=ja_JP.UTF-8", "LC_CTYPE=ja_JP.SJIS", "LANG=ja_JP.eucJP", "LC_ALL=C", "LANG=en_US.UTF-8"} {
			e, loc, li := e, loc, li
			mk(flat, func(s *Scenario) { s.Enc, s.DecoSeed, s.Env, s.NoLead = e, s.Seed|1, []string{loc}, li%2 == 0 })
			mk(coff, func(s *Scenario) { s.Enc, s.DecoSeed, s.Env, s.NoLead = e, s.Seed|1, []string{loc}, li%2 == 1 })
		}
	}
	for _, e := range []string{"ascii", "sjis", "utf8"} {
		e := e
		mk(flat, func(s *Scenario) { s.BareCR, s.Enc, s.DecoSeed = true, e, s.Seed|1 })
		mk(coff, func(s *Scenario) { s.BareCR, s.MixedEOL, s.Enc, s.DecoSeed = true, 11, e, s.Seed|1 })
		mk(flat, func(s *Scenario) { s.BareCR, s.NoFinalNL, s.Enc, s.DecoSeed = true, true, e, s.Seed|1 })
	}
	// token damage under every readable kind of source (the diagnostic names the source)
	for _, k := range allSrcKinds {
		k := k
		mk(flat, func(s *Scenario) { s.SrcKind, s.Break, s.BreakLine = k, 1+int(s.Seed%7), len(flat.Header)+1 })
	}
	mk(flat, func(s *Scenario) { s.Argv0 = "nask" })
	mk(flat, func(s *Scenario) {
		s.Env = []string{"LANG=ja_JP.UTF-8", "LC_ALL=ja_JP.UTF-8"}
		s.Enc, s.DecoSeed = "sjis", 11
	})
	mk(flat, func(s *Scenario) { s.Env = []string{"LANG=ja_JP.SJIS"}; s.Enc, s.DecoSeed = "utf8", 13 })
	mk(flat, func(s *Scenario) { s.Shape, s.SrcKind = "d-src-dst", "barename" })
	return out
}

func (c *c19Ctx) genScenario(seed uint64, progs []*c19Prog) *Scenario {
	r := NewRNG(seed)
	s := &Scenario{Seed: seed}
	p := progs[r.Intn(len(progs))]
	s.ProgName, s.Header, s.Body = p.Name, p.Header, p.Body
	switch r.weighted([]int{25, 40, 35}) {
	case 0:
		s.Enc = "ascii"
		if r.Chance(1, 2) {
			s.DecoSeed = r.U64() | 1
		}
	case 1:
		s.Enc, s.DecoSeed = "sjis", r.U64()|1
	default:
		s.Enc, s.DecoSeed = "utf8", r.U64()|1
	}
	if p.RawUTF8 != nil && r.Chance(1, 4) {
		if r.Chance(1, 2) {
			s.Enc, s.RawSrc = "raw-utf8", base64.StdEncoding.EncodeToString(p.RawUTF8)
		} else {
			s.Enc, s.RawSrc = "raw-sjis", base64.StdEncoding.EncodeToString(p.RawSJIS)
		}
	}
	if r.Chance(1, 40) { // empty source
		s.ProgName, s.Header, s.Body, s.RawSrc, s.Enc, s.DecoSeed = "empty", nil, nil, "", "ascii", 0
		s.NoFinalNL = true
	}
	if s.RawSrc == "" && s.Enc != "ascii" && r.Chance(1, 10) {
		s.Bulk = pick(r, []int{40, 150, 600})
	}
	if s.RawSrc == "" && s.Enc != "ascii" && r.Chance(1, 8) {
		s.AsciiHead = pick(r, []int{300, 1024, 4096, 4200, 8192, 20000, 70000})
	}
	if s.RawSrc == "" && s.Enc != "ascii" && s.AsciiHead == 0 && r.Chance(1, 10) {
		s.Straddle = pick(r, []int{128, 512, 1024, 2048, 4096, 8192, 16384, 32768, 65536}) * pick(r, []int{1, 1, 1, 2, 3})
	}
	if s.Shape == "d-src-dst" {
		s.Bulk, s.AsciiHead, s.Light, s.Straddle = 0, 0, true, 0
	}
	s.BOM = r.Chance(1, 30) // editors on Windows like to add one; gosk reports a parse error for it today
	s.CRLF = r.Chance(1, 10) && s.RawSrc == ""
	if !s.CRLF && s.RawSrc == "" && r.Chance(1, 12) {
		s.MixedEOL = r.U64() | 1
	}
	s.NoLead = r.Chance(1, 4)
	if r.Chance(1, 10) {
		s.Clutter = r.U64() | 1<<40
	}
	if !s.CRLF && s.RawSrc == "" && r.Chance(1, 14) {
		s.BareCR = true // whole file, or (with MixedEOL) some of the lines
	}
	if r.Chance(1, 12) && s.RawSrc == "" {
		s.NoFinalNL = true
	}
	shapes := []string{"src-dst", "src-dst-lst", "none", "src", "four", "d-src-dst", "d-only", "v", "help", "badflag", "src-dst-dashlst", "src-dst-v", "d-src"}
	s.Shape = shapes[r.weighted([]int{64, 11, 2, 3, 3, 5, 1, 1, 1, 2, 2, 2, 2})]
	if s.Shape == "src-dst-lst" || s.Shape == "four" {
		s.LstKind = pick(r, []string{"ok", "ok", "ok", "parent_missing", "same_as_dst", "existing", "same_as_src", "is_dir", "dev_full", "symlink_to_dst", "symlink_to_src", "ro_existing"})
	}
	srcKinds := []string{"file", "missing", "dir", "mode000", "symlink_ok", "dangling", "loop", "spacename", "nonascii_name", "longname", "same_as_dst", "emptyarg", "fifo", "stdin", "relative", "dotslash", "barename", "dotdot_via_symlink", "other_readable", "parent_is_file", "trailing_slash", "socket"}
	s.SrcKind = srcKinds[r.weighted([]int{70, 3, 2, 2, 2, 1, 1, 2, 2, 1, 2, 1, 3, 3, 2, 2, 5, 2, 2, 1, 1})]
	if r.Chance(1, 12) {
		s.ArgPrefix = pick(r, []string{"--", "--", "-d=false", "-d=false --", "--d=false"})
	}
	if (s.Shape == "d-src-dst" || s.Shape == "d-src") && s.SrcKind == "file" && r.Chance(1, 3) {
		s.SrcKind = "barename" // switches next to bare names: option parsing may swallow an unusual first character
	}
	if r.Chance(1, 16) && len(s.Header)+len(s.Body) > 0 {
		s.Break = 1 + r.Intn(7)
		s.BreakLine = r.Intn(len(s.Header) + len(s.Body))
	}
	dstKinds := []string{"absent", "empty", "shorter", "equal", "longer", "old_image", "ro_file", "ro_dir", "parent_missing", "parent_is_file", "is_dir", "symlink_file", "dangling_symlink", "dev_full", "relative", "dotdot", "longname", "emptyarg", "dev_null", "trailing_slash", "dir_no_search", "hardlink_to_src", "symlink_to_src", "barename", "rw_file_in_ro_dir", "dotdot_via_symlink", "other_writable", "symlink_loop", "fifo", "image_with_tail", "image_prefix", "same_image", "socket"}
	s.DstKind = dstKinds[r.weighted([]int{35, 4, 8, 5, 10, 6, 3, 3, 3, 2, 3, 4, 3, 3, 4, 3, 1, 1, 2, 2, 2, 2, 2, 4, 3, 3, 2, 2, 4, 6, 3, 3})]
	if (s.DstKind == "hardlink_to_src" || s.DstKind == "symlink_to_src") && s.SrcKind != "file" {
		s.DstKind = "absent"
	}
	if s.SrcKind == "same_as_dst" {
		s.DstKind = "absent"
	}
	s.DstPrefillSeed = r.U64()
	// socket nodes take a share of the directory cases (derived from a value already drawn, so that
	// every other scenario of a seed stays what it was): open(2) fails with ENXIO, an errno that
	// an errors.Is(ErrNotExist/ErrPermission) style classification does not know
	if s.DstKind == "is_dir" && s.DstPrefillSeed%3 == 0 {
		s.DstKind = "socket"
	}
	if s.SrcKind == "dir" && s.DstPrefillSeed%3 == 1 {
		s.SrcKind = "socket"
	}
	if r.Chance(1, 3) {
		s.Env = drawProcEnv(r, false)
	}
	if r.Chance(1, 10) {
		s.Stdout = pick(r, []string{"closed", "devfull", "deadpipe"})
	}
	if r.Chance(1, 6) {
		s.Argv0 = pick(r, []string{"nask", "gosk-2.0", "as"})
	}
	s.SrcMtime = int64(r.Intn(2000000000)) + 1
	plainDst := false
	switch s.DstKind {
	case "absent", "", "empty", "shorter", "equal", "longer", "old_image", "image_with_tail", "image_prefix", "same_image":
		plainDst = true
	}
	if plainDst && r.Chance(1, 25) {
		s.DstFd = pick(r, []string{"devfd", "procfd"})
	}
	if plainDst && r.Chance(1, 15) {
		s.Fs = pick(r, []string{"ramfs", "tmpfs_small", "tmpfs_full", "tmpfs_noinodes"})
		if s.Fs == "tmpfs_full" || s.Fs == "tmpfs_noinodes" {
			s.DstFd = "" // (the shell that opens the descriptor would be the one to fail)
			if s.Shape != "src-dst" && s.Shape != "d-src-dst" {
				s.Shape, s.LstKind = "src-dst", ""
			}
		}
	}
	if s.SrcKind != "stdin" && r.Chance(1, 12) { // (with fd 0 closed /dev/stdin is whatever the runtime reopened there: not a source)
		s.Stdin = "closed"
	}
	// a current directory other than the world: only with absolute path arguments
	absArgs := s.SrcKind != "relative" && s.SrcKind != "dotslash" && s.SrcKind != "barename" && s.SrcKind != "dotdot_via_symlink" &&
		s.DstKind != "relative" && s.DstKind != "dotdot" && s.DstKind != "barename" && s.DstKind != "dotdot_via_symlink" && s.Shape != "src-dst-dashlst" && s.Shape != "src-dst-v"
	if absArgs && r.Chance(1, 10) {
		s.Cwd = pick(r, []string{"root", "readonly"})
	}
	if r.Chance(1, 5) || ((s.SrcKind == "mode000" || s.SrcKind == "other_readable" || s.DstKind == "ro_file" || s.DstKind == "ro_dir" || s.DstKind == "dir_no_search" || s.DstKind == "rw_file_in_ro_dir" || s.DstKind == "other_writable") && r.Chance(3, 4)) {
		s.Uid = nobody
	}
	if s.SrcKind == "stdin" {
		s.Uid = 0 // the harness's pipe is not openable through /proc/self/fd/0 by another user
	}
	if s.SrcKind == "fifo" || s.SrcKind == "stdin" {
		if src, _ := s.materialise(); len(src) > 60000 { // must fit the pipe buffer in one write
			s.SrcKind = "file"
		}
	}
	if r.Chance(3, 10) && (s.Shape == "src-dst" || s.Shape == "src-dst-lst" || s.Shape == "d-src-dst") && s.SrcKind != "fifo" && s.SrcKind != "stdin" && s.DstFd == "" && s.Fs != "tmpfs_full" && s.Fs != "tmpfs_noinodes" {
		_, plain := s.materialise()
		_, img := c.imageOf(plain)
		switch r.weighted([]int{35, 10, 55}) {
		case 0:
			k := 0
			if len(img) > 0 {
				k = r.Intn(len(img) + 1)
				if len(img) > 512 && r.Chance(1, 2) { // block boundaries and their neighbours
					k = (r.Intn(len(img)/512) + 1) * 512
					if r.Chance(1, 4) {
						k = (r.Intn(len(img)/512)+1)*512 - 256
					}
					k += pick(r, []int{0, 0, -1, 1})
				}
			}
			if r.Chance(1, 6) {
				k = len(img) + r.Intn(10)
			}
			s.Fault = &Fault{Kind: "fsize", K: k}
		case 1:
			s.Fault = &Fault{Kind: "nofile", K: r.Range(3, 9)}
		default:
			st := sites[r.Intn(len(sites))]
			when := 1
			if st.syscall == "read" || (st.target == "dst" && (st.syscall == "openat" || st.syscall == "close")) {
				when = r.Range(1, 2) // calls that occur twice (second open/close only on the WCOFF path)
			}
			if r.Chance(1, 8) {
				when = r.Range(1, 4)
			}
			if st.syscall == "read" && r.Chance(1, 3) {
				when = r.Range(1, 6) // larger sources take more reads
			}
			s.Fault = &Fault{Kind: "strace", Target: st.target, Syscall: st.syscall, When: when, Errno: pick(r, errnos)}
		}
		if s.Fault.Kind == "strace" && s.Shape == "d-src-dst" {
			// -d makes the parser print an enormous trace; under ptrace every one of those writes stops
			// the process, so the run takes minutes. The flag does not change the I/O path: use a limit.
			s.Fault = &Fault{Kind: "nofile", K: r.Range(3, 9)}
		}
		if s.Fault.Kind == "strace" && (s.DstKind == "dev_full" || s.DstKind == "dev_null" || s.DstKind == "emptyarg" || s.SrcKind == "emptyarg") {
			// -P on a device node would also match nothing useful; keep the natural /dev/full fault alone
			s.Fault = nil
		}
	}
	return s
}

var gridTraceFallback int
var gridReachable = map[string]bool{}
var gridTraces = map[string][]string{}

func gridScenarios(c *c19Ctx, progs []*c19Prog, mode string, baseSeed uint64) []*Scenario {
	var out []*Scenario
	n := uint64(0)
	for _, p := range progs {
		if !strings.HasPrefix(p.Name, "grid_") {
			continue
		}
		big := strings.HasSuffix(p.Name, "_big")
		mk := func(f *Fault) *Scenario {
			n++
			return &Scenario{Seed: deriveSeed(baseSeed, 502, n), ProgName: p.Name, Header: p.Header, Body: p.Body, Enc: "ascii", Shape: "src-dst", SrcKind: "file", DstKind: "absent", Fault: f}
		}
		base := mk(nil)
		_, plain := base.materialise()
		cls, img := c.imageOf(plain)
		if cls != "ok" {
			infraFail("grid program %s is not assembled normally by the in-process API (%s)", p.Name, cls)
		}
		out = append(out, base)
		var ks []int
		switch {
		case big: // block boundaries and their neighbours
			step := 512
			if mode == "full" {
				step = 256
			}
			for k := step; k < len(img); k += step {
				ks = append(ks, k)
				if mode == "full" || k%4096 == 0 || k == step {
					ks = append(ks, k-1, k+1)
				}
			}
			ks = append(ks, len(img)-1)
		case mode == "full":
			for k := 0; k <= len(img)+1; k++ {
				ks = append(ks, k)
			}
		default:
			ks = []int{0, 1, 19, 20, 21, len(img) / 2, len(img) - 1, len(img)}
		}
		for _, k := range ks {
			s := mk(&Fault{Kind: "fsize", K: k})
			out = append(out, s)
			if mode == "full" && k%7 == 0 { // the same torn write over a stale, longer destination
				s2 := mk(&Fault{Kind: "fsize", K: k})
				s2.DstKind, s2.DstPrefillSeed = "longer", uint64(k)+1
				out = append(out, s2)
			}
		}
		// reachable sites: what a fault-free run actually does on the two paths
		tr := mk(&Fault{Kind: "trace"})
		to, _, err := c.execute(tr, false)
		if err != nil || to == nil {
			js, _ := json.Marshal(to)
			infraFail("cannot trace the fault-free run of %s: %v\noutcome: %s", p.Name, err, clip(js, 3000))
		}
		if len(to.Trace) == 0 {
			// the command touched neither path in a way the tracer recognised (it may be broken: that is
			// for the scenarios to judge, not for the harness): fall back to the usual sites, once each
			to.Trace = []string{"src:newfstatat", "src:openat", "src:fstat", "src:read", "src:close", "dst:openat", "dst:write", "dst:ftruncate", "dst:close"}
			gridTraceFallback++
		}
		counts := map[string]int{}
		var order []string
		for _, e := range to.Trace {
			if counts[e] == 0 {
				order = append(order, e)
			}
			counts[e]++
		}
		es := []string{"ENOSPC", "EIO", "EINTR", "EMFILE"}
		if mode == "full" {
			es = errnos
		}
		for _, e := range order {
			tg, sys, _ := strings.Cut(e, ":")
			n := counts[e]
			for w := 1; w <= n; w++ {
				for _, en := range es {
					out = append(out, mk(&Fault{Kind: "strace", Target: tg, Syscall: sys, When: w, Errno: en}))
					gridReachable[tg+":"+sys+":"+en+":"+out[len(out)-1].format()] = true
					if tg == "dst" && (en == "EIO" || mode == "full") { // the same fault over a longer, stale destination
						s2 := mk(&Fault{Kind: "strace", Target: tg, Syscall: sys, When: w, Errno: en})
						s2.DstKind, s2.DstPrefillSeed = "longer", uint64(w)*131+7
						out = append(out, s2)
					}
				}
			}
			// control: an ordinal the run never reaches must not fire
			out = append(out, mk(&Fault{Kind: "strace", Target: tg, Syscall: sys, When: n + 1, Errno: "EIO"}))
		}
		gridTraces[p.Name] = to.Trace
		if !big {
			for k := 3; k <= 9; k++ {
				out = append(out, mk(&Fault{Kind: "nofile", K: k}))
			}
		}
	}
	return out
}

func (s *Scenario) format() string {
	for _, l := range s.Header {
		if strings.Contains(l, "WCOFF") {
			return "coff"
		}
	}
	for _, l := range s.Body {
		if strings.Contains(l, "WCOFF") {
			return "coff"
		}
	}
	return "flat"
}

func (s *Scenario) faultAddr() string {
	if s.Fault == nil {
		return "none"
	}
	if s.Fault.Kind == "fsize" {
		return "fsize"
	}
	if s.Fault.Kind == "nofile" {
		return fmt.Sprintf("nofile=%d", s.Fault.K)
	}
	return fmt.Sprintf("%s:%s#%d:%s", s.Fault.Target, s.Fault.Syscall, s.Fault.When, s.Fault.Errno)
}

func (s *Scenario) tuple() (string, bool) {
	sk := s.SrcKind + "/" + s.Enc
	if s.Break > 0 {
		sk += "/broken"
	}
	if s.CRLF {
		sk += "/crlf"
	}
	t := strings.Join([]string{s.Shape, sk, s.DstKind, fmt.Sprint(s.Uid), s.faultAddr(), s.format()}, "|")
	trivial := s.Shape == "src-dst" && s.SrcKind == "file" && s.Enc == "ascii" && s.DecoSeed == 0 && s.Break == 0 && s.DstKind == "absent" && s.Fault == nil
	return t, !trivial
}

func c19Signature(s *Scenario, v *Violation) string {
	if v.Class == "G2-partial-image" {
		fk := "nofault"
		if s.Fault != nil {
			fk = s.Fault.Kind
			if fk == "strace" {
				fk = "strace:" + s.Fault.Target + ":" + s.Fault.Syscall + ":" + s.Fault.Errno
			}
		}
		return "C19/G2-partial-image/" + fk + "/" + s.format()
	}
	return "C19/" + v.Class + "/" + s.Shape + "/" + s.SrcKind + "/" + s.DstKind + "/" + s.faultAddr()
}

// shrinkScenario greedily simplifies a failing scenario while the same violation class persists.
func (c *c19Ctx) shrinkScenario(s *Scenario, class string) (*Scenario, int) {
	runs := 0
	if os.Getenv("VERIF_NO_SHRINK") != "" { // sensitivity sweeps only need the verdict
		return s, 0
	}
	still := func(cand *Scenario) bool {
		runs++
		_, v, err := c.execute(cand, false)
		return err == nil && v != nil && v.Class == class
	}
	cur := *s
	try := func(mut func(x *Scenario)) {
		cand := cur
		mut(&cand)
		if still(&cand) {
			cur = cand
		}
	}
	if cur.Fault != nil {
		try(func(x *Scenario) { x.Fault = nil })
	}
	try(func(x *Scenario) { x.Uid = 0 })
	try(func(x *Scenario) { x.DstKind = "absent" })
	try(func(x *Scenario) { x.SrcKind = "file" })
	try(func(x *Scenario) { x.Shape, x.LstKind = "src-dst", "" })
	try(func(x *Scenario) { x.CRLF = false })
	try(func(x *Scenario) { x.NoFinalNL = false })
	try(func(x *Scenario) { x.RawSrc = ""; x.Enc = "ascii"; x.DecoSeed = 0 })
	if cur.Enc != "ascii" {
		try(func(x *Scenario) { x.RawSrc = "" })
	}
	// statement removal (ddmin; the candidates of one round run in parallel, each in its own world)
	if cur.RawSrc == "" {
		n := 2
		for len(cur.Body) >= 2 && runs < 240 {
			chunk := (len(cur.Body) + n - 1) / n
			var cands []Scenario
			for st := 0; st < len(cur.Body); st += chunk {
				e := st + chunk
				if e > len(cur.Body) {
					e = len(cur.Body)
				}
				cand := cur
				cand.Body = append(append([]string(nil), cur.Body[:st]...), cur.Body[e:]...)
				if cand.Fault != nil && cand.Fault.Kind == "fsize" {
					// keep the cut inside the (smaller) image
					_, plain := cand.materialise()
					if _, img := c.imageOf(plain); cand.Fault.K >= len(img) && len(img) > 0 {
						cand.Fault = &Fault{Kind: "fsize", K: len(img) / 2}
					}
				}
				cands = append(cands, cand)
			}
			ok := make([]bool, len(cands))
			parallelDo(len(cands), 16, func(i int) {
				_, v, err := c.execute(&cands[i], false)
				ok[i] = err == nil && v != nil && v.Class == class
			})
			runs += len(cands)
			reduced := false
			for i := range cands {
				if ok[i] {
					cur = cands[i]
					reduced = true
					break
				}
			}
			if reduced {
				if n > 2 {
					n--
				}
			} else if chunk > 1 {
				n *= 2
			} else {
				break
			}
		}
	}
	return &cur, runs
}

func runC19(tierName string) int {
	t0 := time.Now()
	tier := c19TierOf(tierName)
	baseSeed := baseSeedFromEnv()
	fmt.Printf("C19 %s VERIF_SEED=%d\n", tier.name, baseSeed)
	findings := loadFindings()
	for _, tool := range []string{"strace", "prlimit", "setpriv"} {
		if _, err := lookPath(tool); err != nil {
			infraFail("%s not available: the fault layer cannot run", tool)
		}
	}
	b := doBuild(false)
	fmt.Printf("build: %.1fs scratch=%s (%s)\n", b.BuildSecs, b.Scratch, b.GoDefault)
	sim := &simCtx{b: b, runRoot: filepath.Join(b.Scratch, "runs")}
	c := &c19Ctx{sim: sim, imgCache: map[string]*imgEntry{}}
	par := envInt("VERIF_PAR", 16)
	progs := loadC19Progs(baseSeed, tier.nGen)

	var scenarios []*Scenario
	grid := gridScenarios(c, progs, tier.grid, baseSeed)
	grid = append(grid, kindGrid(progs, baseSeed)...)
	scenarios = append(scenarios, grid...)
	nGrid := len(grid)
	for i := 0; i < tier.nRandom; i++ {
		scenarios = append(scenarios, nil) // generated lazily in the workers (imageOf may run a process)
	}

	type agg struct {
		sync.Mutex
		evals                            int
		tuples                           map[string]bool
		exitHist                         map[string]int
		faultsFired                      map[string]int
		faultsPlanned                    map[string]int
		faultMiss                        int
		gridCells                        map[string]bool
		healRuns, healOK                 int
		probes                           map[string]int
		worldChanges                     int
		hangs                            int
		firstHang                        string
		worldSamples                     []string
		samples                          []any
		srcKinds, dstKinds, shapes, encs map[string]int
		expectPins                       map[string]int
	}
	A := &agg{tuples: map[string]bool{}, exitHist: map[string]int{}, faultsFired: map[string]int{}, faultsPlanned: map[string]int{}, gridCells: map[string]bool{}, probes: map[string]int{},
		srcKinds: map[string]int{}, dstKinds: map[string]int{}, shapes: map[string]int{}, encs: map[string]int{}, expectPins: map[string]int{}}
	type found struct {
		s *Scenario
		o *ScenarioOutcome
		v *Violation
	}
	var foundList []found
	var fmu sync.Mutex
	parallelDo(len(scenarios), par, func(i int) {
		if i >= nGrid && time.Since(t0) > tier.budget {
			return
		}
		s := scenarios[i]
		if s == nil {
			s = c.genScenario(deriveSeed(baseSeed, 500, uint64(i-nGrid)), progs)
		}
		o, v, err := c.execute(s, false)
		if he, ok := err.(hangErr); ok {
			A.Lock()
			A.hangs++
			if A.firstHang == "" {
				A.firstHang = string(he)
			}
			A.Unlock()
			return
		}
		if err != nil {
			infraFail("scenario seed %d: %v", s.Seed, err)
		}
		A.Lock()
		A.evals++
		if t, nt := s.tuple(); nt {
			A.tuples[t] = true
		}
		A.exitHist[fmt.Sprint(o.Exit)]++
		A.srcKinds[s.SrcKind]++
		A.dstKinds[s.DstKind]++
		A.shapes[s.Shape]++
		A.encs[s.Enc]++
		A.expectPins[strings.SplitN(o.Expect, " ", 2)[0]]++
		if s.Fs != "" {
			if o.FsMounted == "true" {
				A.probes["fs_mounted:"+s.Fs]++
				if s.Fs == "tmpfs_full" || s.Fs == "tmpfs_noinodes" {
					A.faultsPlanned["fs:"+s.Fs]++
					if o.FaultFired > 0 && s.Fault == nil {
						A.faultsFired["fs:"+s.Fs]++
					}
				}
			} else {
				A.probes["fs_mount_unavailable"]++
			}
		}
		if s.DstFd != "" {
			A.probes["dst_named_by_descriptor"]++
		}
		if s.Fault != nil {
			fk := s.Fault.Kind
			if fk == "strace" {
				fk = "strace:" + s.Fault.Errno
			}
			A.faultsPlanned[fk]++
			if o.FaultFired > 0 {
				A.faultsFired[fk] += o.FaultFired
				if s.Fault.Kind == "strace" {
					A.gridCells[s.Fault.Target+":"+s.Fault.Syscall+":"+s.Fault.Errno+":"+s.format()] = true
					switch {
					case s.Fault.Target == "dst" && s.Fault.Syscall == "write":
						A.probes["write_error_path"]++
					case s.Fault.Target == "dst" && s.Fault.Syscall == "openat" && s.Fault.When == 2 && s.format() == "coff":
						A.probes["coff_second_open_failed"]++
					case s.Fault.Target == "src" && s.Fault.Syscall == "read":
						A.probes["read_error_path"]++
					}
					if s.Fault.Errno == "EINTR" && o.Exit == 0 {
						A.probes["eintr_retried_success"]++
					}
				}
				if s.Fault.Kind == "fsize" && s.Fault.K > 0 {
					A.probes["torn_write_k>0"]++
				}
			} else if s.Fault.Kind == "strace" {
				A.faultMiss++
			}
		}
		if o.HealExit != nil {
			A.healRuns++
			if *o.HealExit == 0 {
				A.healOK++
			}
		}
		if strings.HasPrefix(o.Expect, "nonzero+pos") {
			A.probes["parse_error_path"]++
		}
		if s.SrcKind == "same_as_dst" {
			A.probes["src_equals_dst"]++
		}
		if s.Enc == "sjis" || s.Enc == "raw-sjis" {
			A.probes["sjis_source"]++
		}
		if s.Enc == "utf8" || s.Enc == "raw-utf8" {
			A.probes["utf8_source"]++
		}
		A.worldChanges += len(o.WorldChanges)
		for _, wc := range o.WorldChanges {
			k := fmt.Sprintf("shape=%s src=%s dst=%s lst=%s: %s", s.Shape, s.SrcKind, s.DstKind, s.LstKind, wc)
			if len(A.worldSamples) < 12 {
				A.worldSamples = append(A.worldSamples, k)
			}
		}
		if o.LineMismatch != "" {
			A.probes["parse_error_line_differs_from_comment_free_form_nongating"]++
		}
		if len(A.samples) < 4 && v == nil && (s.Fault != nil || s.Enc == "sjis") && len(A.samples) < 4 {
			A.samples = append(A.samples, map[string]any{"seed": s.Seed, "prog": s.ProgName, "enc": s.Enc, "argv_shape": s.Shape, "src": s.SrcKind, "dst": s.DstKind, "uid": s.Uid, "fault": s.Fault.String(), "exit": o.Exit, "dst_pre": o.DstPre, "dst_post": o.DstPost, "expect": o.Expect, "fault_fired": o.FaultFired, "heal_exit": o.HealExit})
		}
		A.Unlock()
		if v != nil {
			fmu.Lock()
			foundList = append(foundList, found{s, o, v})
			fmu.Unlock()
		}
	})

	// Triage: group by signature; shrink and report one per signature.
	violations, known := 0, 0
	bySig := map[string][]found{}
	var sigs []string
	for _, f := range foundList {
		sg := c19Signature(f.s, f.v)
		if _, ok := bySig[sg]; !ok {
			sigs = append(sigs, sg)
		}
		bySig[sg] = append(bySig[sg], f)
	}
	sort.Strings(sigs)
	reportedClasses := map[string]int{}
	for _, sg := range sigs {
		fs := bySig[sg]
		sort.Slice(fs, func(i, j int) bool { return fs[i].s.Seed < fs[j].s.Seed })
		f := fs[0]
		if k := matchKnown(findings, "C19", sg); k != nil {
			known++
			fmt.Printf("KNOWN-FINDING: property=C19 %s [%s] (%d scenario(s) in this run)\n", k.What, sg, len(fs))
			continue
		}
		if reportedClasses[f.v.Class] >= 3 {
			violations++
			continue
		}
		reportedClasses[f.v.Class]++
		min, runs := c.shrinkScenario(f.s, f.v.Class)
		o2, v2, err := c.execute(min, false)
		note := ""
		if err != nil || v2 == nil || v2.Class != f.v.Class {
			min, o2, v2 = f.s, f.o, f.v
			note = "minimised scenario did not reproduce on confirmation; original scenario reported"
		}
		// the signature of the minimised scenario may be a known finding too
		sg2 := c19Signature(min, v2)
		if k := matchKnown(findings, "C19", sg2); k != nil {
			known++
			fmt.Printf("KNOWN-FINDING: property=C19 %s [%s, minimised from %s]\n", k.What, sg2, sg)
			continue
		}
		rf := &ReplayFile{Property: "C19", Kind: "c19-scenario", BaseSeed: baseSeed, Tier: tier.name, Violation: *v2, Signature: sg2, Exact: true, Scenario: min, Observed: o2, ShrinkRuns: runs, Note: note,
			OpsBeforeMinimisation: len(f.s.Body), OpsAfterMinimisation: len(min.Body)}
		p := writeReplay(rf)
		violations++
		fmt.Printf("VIOLATION property=C19 replay=%s\n  class=%s signature=%s (%d scenario(s))\n  %s\n  expected: %s\n  observed: %s\n  cmd: %v\n", p, v2.Class, sg2, len(fs), v2.Detail, v2.Expected, v2.Observed, o2.Cmdline)
	}

	wall := time.Since(t0).Seconds()
	samples := A.samples
	if len(samples) == 0 {
		samples = append(samples, "none recorded")
	}
	possibleCells := len(gridReachable)
	gridHit := 0
	for k := range gridReachable {
		if A.gridCells[k] {
			gridHit++
		}
	}
	ev := &Evidence{PropertyID: "C19", Tier: tier.name, Seed: int64(baseSeed), Level: "fault_enumeration", WallS: wall, Violations: violations,
		Assumptions: []string{
			"Image(src) is what the in-process API (native worker, same working tree) assembles from the comment-free form of the same lines",
			"process kills are out of scope: the contract is about the statuses gosk chooses",
			"strace error injection replaces the syscall with a failing one (the kernel does not perform it); only error returns are injected, never fake success values",
			"-d, -v, --help, unknown flags, four positionals: only G1/G2 are applied (the statement does not pin their status)",
		},
		Coverage: map[string]any{
			"evaluations":                        A.evals,
			"distinct_nontrivial":                len(A.tuples),
			"rule":                               "one evaluation = one scenario (argv shape x source state/encoding x destination state x uid x fault plan) run against the shipped binary in its own world directory; distinct = distinct tuple (argv shape, source class, destination class, uid, fault address, output format); non-trivial = at least one of source/destination/argv/fault differs from the plain 'ascii file -> absent destination, no fault' case. The first part of every run is an enumerated single-fault grid over two fixed programs (flat, WCOFF): every fsize cut, every (site x errno x ordinal), every nofile limit.",
			"samples":                            samples,
			"grid_scenarios":                     nGrid,
			"random_scenarios":                   A.evals - nGrid,
			"faults_planned":                     A.faultsPlanned,
			"faults_fired":                       A.faultsFired,
			"grid_trace_fallbacks":               gridTraceFallback,
			"watchdog_expired_inconclusive":      A.hangs,
			"fault_address_miss":                 A.faultMiss,
			"fault_grid_coverage":                map[string]any{"reachable_cells_hit": gridHit, "reachable_cells": possibleCells, "cells_hit_including_random_scenarios": len(A.gridCells), "cell": "target:syscall:errno:format with an injected fault that actually fired; reachable = the syscall occurs on that path in the fault-free strace of the grid program", "fault_free_traces": gridTraces},
			"exit_status_histogram":              A.exitHist,
			"expectation_histogram":              A.expectPins,
			"argv_shapes":                        A.shapes,
			"source_kinds":                       A.srcKinds,
			"destination_kinds":                  A.dstKinds,
			"encodings":                          A.encs,
			"heal_runs":                          A.healRuns,
			"heal_runs_succeeded":                A.healOK,
			"probes":                             A.probes,
			"unexpected_world_changes_nongating": A.worldChanges,
			"world_change_samples":               A.worldSamples,
			"runs_per_hour":                      int(float64(A.evals) / wall * 3600),
			"seeds_per_hour":                     int(float64(A.evals) / wall * 3600),
			"simulated_time_s":                   0,
			"components":                         componentsNote,
			"known_findings_matched":             known,
			"os_processes_started":               sim.procsStarted,
			"build_s":                            b.BuildSecs,
			"fault_kinds_available":              map[string]bool{"strace": true, "prlimit_fsize": true, "prlimit_nofile": true, "setpriv_uid": true},
		}}
	writeEvidence(ev)
	fmt.Printf("C19 %s: %d scenarios (%d grid), %d distinct non-trivial, faults fired=%v miss=%d, heal %d/%d, %.0fs; violations=%d known=%d\n",
		tier.name, A.evals, nGrid, len(A.tuples), A.faultsFired, A.faultMiss, A.healOK, A.healRuns, wall, violations, known)
	cleanupAll()
	if violations > 0 {
		return 1
	}
	if A.hangs > 0 {
		// nothing that ran broke the contract, but some runs never ended: neither a pass nor a violation
		fmt.Fprintf(os.Stderr, "INFRA-ERROR: %d scenario(s) were still running when the watchdog expired (inconclusive); first: %s\n", A.hangs, A.firstHang)
		return 2
	}
	return 0
}

func replayC19(rf *ReplayFile, path string) int {
	b := doBuild(false)
	sim := &simCtx{b: b, runRoot: filepath.Join(b.Scratch, "runs")}
	c := &c19Ctx{sim: sim, imgCache: map[string]*imgEntry{}}
	o, v, err := c.execute(rf.Scenario, false)
	if err != nil {
		infraFail("replay: %v", err)
	}
	defer cleanupAll()
	if v != nil {
		fmt.Printf("VIOLATION property=C19 replay=%s\n  reproduced: class=%s\n  %s\n  expected: %s\n  observed: %s\n  cmd: %v\n  exit=%d output=%s\n", path, v.Class, v.Detail, v.Expected, v.Observed, o.Cmdline, o.Exit, clipS(o.Output, 300))
		if v.Class != rf.Violation.Class {
			fmt.Printf("  note: recorded class was %s\n", rf.Violation.Class)
		}
		return 1
	}
	fmt.Printf("NOT-REPRODUCED property=C19 exit=%d dst_pre=%s dst_post=%s expect=%s\n", o.Exit, o.DstPre, o.DstPost, o.Expect)
	return 0
}
