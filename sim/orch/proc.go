package main

import (
	"bytes"
	"context"
	"encoding/json"
	"errors"
	"os"
	"os/exec"
	"path/filepath"
	"strings"
	"sync"
	"syscall"
	"time"
)

type ProcResult struct {
	Exit     int
	Signal   string
	TimedOut bool
	Stdout   []byte
	Stderr   []byte
	Wall     time.Duration
	StartErr string
}

// runProc runs one OS process under a watchdog. Output is captured through pipes.
func runProc(timeout time.Duration, dir string, env []string, argv ...string) ProcResult {
	return runProcStdin(timeout, dir, env, nil, argv...)
}

// runProcStdin is runProc with the given bytes on standard input (nil: no stdin).
func runProcStdin(timeout time.Duration, dir string, env []string, stdin []byte, argv ...string) ProcResult {
	return runProcOpts(timeout, dir, env, stdin, false, argv...)
}

// runProcOpts: deadStdout gives the child a pipe on stdout whose read end is already closed
// (`cmd | true` after the reader has gone): every write to it raises SIGPIPE / EPIPE.
func runProcOpts(timeout time.Duration, dir string, env []string, stdin []byte, deadStdout bool, argv ...string) ProcResult {
	ctx, cancel := context.WithTimeout(context.Background(), timeout)
	defer cancel()
	c := exec.CommandContext(ctx, argv[0], argv[1:]...)
	c.Dir = dir
	c.Env = env
	c.SysProcAttr = &syscall.SysProcAttr{Setpgid: true}
	c.Cancel = func() error { // kill the whole group (strace + child)
		return syscall.Kill(-c.Process.Pid, syscall.SIGKILL)
	}
	c.WaitDelay = 60 * time.Second // only bounds the copy of already written output after the process has gone
	var so, se capBuffer           // (gosk -d prints a parser trace of hundreds of megabytes for larger sources)
	c.Stdout, c.Stderr = &so, &se
	if deadStdout {
		if pr, pw, err := os.Pipe(); err == nil {
			pr.Close()
			c.Stdout = pw
			defer pw.Close()
		}
	}
	if stdin != nil {
		c.Stdin = bytes.NewReader(stdin)
	}
	t0 := time.Now()
	err := c.Run()
	res := ProcResult{Stdout: so.Bytes(), Stderr: se.Bytes(), Wall: time.Since(t0)}
	if ctx.Err() == context.DeadlineExceeded {
		res.TimedOut = true
	}
	if err != nil {
		if ee, ok := err.(*exec.ExitError); ok {
			ws := ee.Sys().(syscall.WaitStatus)
			if ws.Signaled() {
				res.Signal = ws.Signal().String()
				res.Exit = 128 + int(ws.Signal())
			} else {
				res.Exit = ws.ExitStatus()
			}
		} else if errors.Is(err, exec.ErrWaitDelay) && c.ProcessState != nil {
			// the process ended; only draining its output took too long (overloaded machine): keep its status
			if ws, ok := c.ProcessState.Sys().(syscall.WaitStatus); ok && ws.Signaled() {
				res.Signal = ws.Signal().String()
				res.Exit = 128 + int(ws.Signal())
			} else {
				res.Exit = c.ProcessState.ExitCode()
			}
		} else {
			res.StartErr = err.Error()
			res.Exit = -1
		}
	}
	return res
}

// capBuffer keeps the first and the last few megabytes of what is written to it.
type capBuffer struct {
	head, tail []byte
	dropped    int64
}

const capHead, capTail = 2 << 20, 4 << 20

func (b *capBuffer) Write(p []byte) (int, error) {
	n := len(p)
	if room := capHead - len(b.head); room > 0 {
		k := room
		if k > len(p) {
			k = len(p)
		}
		b.head = append(b.head, p[:k]...)
		p = p[k:]
	}
	if len(p) > 0 {
		b.tail = append(b.tail, p...)
		if len(b.tail) > 2*capTail {
			cut := len(b.tail) - capTail
			b.dropped += int64(cut)
			b.tail = append(b.tail[:0], b.tail[cut:]...)
		}
	}
	return n, nil
}

func (b *capBuffer) Bytes() []byte {
	if b.dropped == 0 {
		return append(append([]byte(nil), b.head...), b.tail...)
	}
	out := append([]byte(nil), b.head...)
	out = append(out, []byte("\n...[output dropped by the harness]...\n")...)
	return append(out, b.tail...)
}

// parallelDo runs f(i) for i in [0,n) on `par` goroutines.
func parallelDo(n, par int, f func(i int)) {
	if par < 1 {
		par = 1
	}
	var wg sync.WaitGroup
	ch := make(chan int)
	for w := 0; w < par; w++ {
		wg.Add(1)
		go func() {
			defer wg.Done()
			for i := range ch {
				f(i)
			}
		}()
	}
	for i := 0; i < n; i++ {
		ch <- i
	}
	close(ch)
	wg.Wait()
}

func baseEnv(extra ...string) []string {
	env := []string{"PATH=/usr/local/sbin:/usr/local/bin:/usr/sbin:/usr/bin:/sbin:/bin"}
	return append(env, extra...)
}

func writeJSON(path string, v any) error {
	b, err := json.MarshalIndent(v, "", " ")
	if err != nil {
		return err
	}
	os.MkdirAll(filepath.Dir(path), 0755)
	return os.WriteFile(path, b, 0644)
}

func clip(b []byte, n int) string {
	s := string(b)
	if len(s) > n {
		s = s[:n] + "...[clipped]"
	}
	return strings.ToValidUTF8(s, "?")
}

func lookPath(name string) (string, error) { return exec.LookPath(name) }
