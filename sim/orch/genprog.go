package main

import (
	"fmt"
	"os"
	"path/filepath"
	"sort"
	"strings"
)

// Program is one assembly source of the workload, kept as lines so that it can be
// decorated with comments (C19) and shrunk statement by statement.
type Program struct {
	Name   string
	Header []string // directives that select mode/format/origin
	Body   []string // statements, one per line, ASCII, no comments
	Raw    []byte   // for corpus programs: the text exactly as extracted (Header/Body empty)
	// classification (measured from the text, used for coverage accounting only)
	Bits32    bool
	Coff      bool
	HasEQU    bool
	HasGlobal bool
	ErrPath   bool   // contains statements meant to take gosk's log-and-continue paths
	Origin    string // corpus | gen | twin | adversarial
}

func (p *Program) Source() []byte {
	if p.Raw != nil {
		return p.Raw
	}
	var sb strings.Builder
	for _, l := range p.Header {
		sb.WriteString(l)
		sb.WriteByte('\n')
	}
	for _, l := range p.Body {
		sb.WriteString(l)
		sb.WriteByte('\n')
	}
	return []byte(sb.String())
}

func (p *Program) Class() string {
	b := func(x bool, s string) string {
		if x {
			return s
		}
		return "-"
	}
	return b(p.Bits32, "32") + b(p.Coff, "C") + b(p.HasEQU, "E") + b(p.HasGlobal, "G") + b(p.ErrPath, "X")
}

func classify(p *Program) {
	s := strings.ToUpper(string(p.Source()))
	p.Bits32 = strings.Contains(s, "[BITS 32]")
	p.Coff = strings.Contains(s, "WCOFF")
	p.HasEQU = strings.Contains(s, " EQU ") || strings.Contains(s, "\tEQU\t") || strings.Contains(s, "\tEQU ")
	p.HasGlobal = strings.Contains(s, "GLOBAL")
}

func loadCorpus(dir string) []*Program {
	ents, err := os.ReadDir(dir)
	if err != nil {
		infraFail("corpus: %v", err)
	}
	var out []*Program
	for _, e := range ents {
		if !strings.HasSuffix(e.Name(), ".nas") {
			continue
		}
		b, err := os.ReadFile(filepath.Join(dir, e.Name()))
		if err != nil {
			infraFail("corpus: %v", err)
		}
		p := &Program{Name: e.Name(), Raw: b, Origin: "corpus"}
		if strings.HasPrefix(e.Name(), "adv_") {
			p.Origin = "adversarial"
		}
		classify(p)
		out = append(out, p)
	}
	sort.Slice(out, func(i, j int) bool { return out[i].Name < out[j].Name })
	return out
}

var (
	regs8   = []string{"AL", "CL", "DL", "BL", "AH", "CH", "DH", "BH"}
	regs16  = []string{"AX", "CX", "DX", "BX", "SP", "BP", "SI", "DI"}
	regs32  = []string{"EAX", "ECX", "EDX", "EBX", "ESP", "EBP", "ESI", "EDI"}
	sregs   = []string{"ES", "DS", "SS", "FS", "GS"}
	base16  = []string{"BX", "SI", "DI", "BP", "BX+SI", "BX+DI"}
	jccs    = []string{"JMP", "JE", "JNE", "JZ", "JNZ", "JC", "JNC", "JA", "JAE", "JB", "JBE", "JG", "JGE", "JL", "JLE", "JS", "JNS", "JO", "JP"}
	noparam = []string{"HLT", "NOP", "CLI", "STI", "CLD", "STD", "CLC", "STC", "RET", "PUSHA", "POPA", "PUSHF", "POPF", "IRET", "CWD", "CBW", "LAHF", "SAHF", "WAIT", "CMC"}
	arith   = []string{"ADD", "SUB", "CMP", "AND", "OR", "XOR", "ADC", "SBB"}
	unary   = []string{"INC", "DEC", "NOT", "NEG"}
	shifts  = []string{"SHL", "SHR", "SAR"}
	// Name material: short (<=8 bytes, inline in the COFF symbol record) and long (string table).
	nameHeads = []string{"_io", "_load", "_asm", "lbl", "L", "fin", "loop", "entry", "msg", "put", "_mem", "wait", "next", "skip", "_farjmp", "k"}
	nameTails = []string{"", "_hlt", "_cli", "8", "16", "32", "_eflags", "_gdtr", "loop", "_inthandler21", "_x", "A", "_store_cr0", "done", "2", "_very_long_symbol_name"}
)

// Labels that many generated programs define, so that identical operand texts ("SI,msg",
// "BX,fin") recur across different mnemonics and across different programs of one pool.
var commonLabels = []string{"fin", "entry", "putloop", "msg", "next", "retry", "error", "strend"}

// sharedOperands: operand-pair texts used verbatim with several mnemonics (MOV and non-MOV).
var sharedOperands = []string{"AX,ES:BX", "CX,ES:DI", "SI,msg", "BX,fin", "AX,entry", "SI,strend", "CX,retry", "DI,next", "AX,0", "SI,1", "BX,15", "AL,[SI]", "CX,[SI]", "[0x0ff0],BX", "DX,[0x0ff2]", "ECX,[EBX+16]", "EAX,1", "AX,BX", "ECX,EDX", "BYTE [SI],0", "WORD [0x0ff4],320", "AX,msg+2"}

type progGen struct {
	nonASCII     bool // string literals may contain non-ASCII text (C10 pools only: C19 re-encodes files)
	names        []string
	dotted       []string // labels containing '.' or '$'; never used as jump targets
	mustJump     []string // labels that must be the target of at least one jump
	caseSiblings []string // labels differing only in case from another name / spelled like a register
	r            *RNG
	labels       []string
	equs         []string
	used         map[string]bool
	bits32       bool
}

func (g *progGen) newName() string {
	for tries := 0; ; tries++ {
		n := pick(g.r, nameHeads) + pick(g.r, nameTails)
		if len(g.names) > 0 && tries < 20 && g.r.Chance(1, 4) {
			// a name related to an existing one: proper suffix, proper prefix, or extension
			// (prefix/suffix confusion in substitution, tail merging in string tables)
			base := pick(g.r, g.names)
			switch g.r.Intn(4) {
			case 0:
				if len(base) > 4 {
					n = base[g.r.Range(1, len(base)-3):]
				}
			case 1:
				if len(base) > 4 {
					n = base[:g.r.Range(3, len(base)-1)]
				}
			case 2:
				n = pick(g.r, []string{"_asm", "_dbg", "x", "_"}) + base
			default:
				n = base + pick(g.r, []string{"2", "_end", "x", "_"})
			}
			if c := n[0]; !(c == '_' || (c >= 'a' && c <= 'z') || (c >= 'A' && c <= 'Z')) {
				continue
			}
		} else if g.r.Chance(1, 3) {
			n += fmt.Sprintf("%d", g.r.Intn(40))
		}
		if tries > 30 { // many names: the small vocabulary is exhausted
			n += fmt.Sprintf("_%d", len(g.names))
		}
		if g.r.Chance(1, 300) { // longer than any one-byte length field
			n += "_" + strings.Repeat("xy", 130)
		}
		if true {
			up := strings.ToUpper(n)
			if g.used[up] || isReserved(up) {
				continue
			}
			g.used[up] = true
			g.names = append(g.names, n)
			return n
		}
	}
}

func isReserved(up string) bool {
	for _, set := range [][]string{regs8, regs16, regs32, sregs, jccs, noparam, arith, unary, shifts} {
		for _, s := range set {
			if s == up {
				return true
			}
		}
	}
	switch up {
	case "L", "K", "DB", "DW", "DD", "EQU", "ORG", "MOV", "INT", "IN", "OUT", "CALL", "PUSH", "POP", "BYTE", "WORD", "DWORD", "GLOBAL", "EXTERN", "RESB", "ALIGNB", "SHORT", "NEAR", "FAR":
		return true
	}
	return false
}

// boundary values for size classification (imm8 / imm16 / imm32, sign extension, disp8 / disp32)
var boundaryImms = []string{"0x7f", "0x80", "0xff", "0x100", "127", "128", "255", "256", "0x7fff", "0x8000", "0xffff", "0x10000", "0x7fffffff", "0x80000000", "0xffffffff", "-1", "-128", "-129", "-32768", "0", "1"}

func (g *progGen) imm(bits int) string {
	if g.r.Chance(1, 6) {
		return pick(g.r, boundaryImms)
	}
	var v uint64
	switch g.r.Intn(4) {
	case 0:
		v = uint64(g.r.Intn(16))
	case 1:
		v = uint64(g.r.Intn(256))
	default:
		v = g.r.U64()
	}
	switch bits {
	case 8:
		v &= 0xff
	case 16:
		v &= 0xffff
	default:
		v &= 0xffffffff
	}
	if g.r.Chance(1, 2) {
		return fmt.Sprintf("0x%x", v)
	}
	return fmt.Sprintf("%d", v)
}

func (g *progGen) mem() string {
	if g.r.Chance(1, 12) { // segment overrides, scaled index, displacements on the disp8 / disp32 boundary
		return pick(g.r, []string{"[ES:BX]", "[CS:0x10]", "[DS:SI]", "[EBX+ECX*4+8]", "[ESI*2]", "[EAX+EBX]", "[EBP+127]", "[EBP+128]", "[EBX-128]", "[EBX-129]", "[BX+127]", "[BX+128]", "[SI-1]", "[ES:DI+2]", "[ESP]", "[ESP+EAX*2]"})
	}
	if len(g.dotted) > 0 && g.r.Chance(1, 6) {
		return "[" + pick(g.r, g.dotted) + "]"
	}
	if g.r.Chance(1, 4) {
		return "[" + g.addr() + "]"
	}
	if len(g.equs) > 0 && g.r.Chance(1, 4) {
		return "[" + pick(g.r, g.equs) + "]"
	}
	if len(g.labels) > 0 && g.r.Chance(1, 4) {
		return "[" + pick(g.r, g.labels) + "]"
	}
	if g.bits32 {
		b := pick(g.r, regs32)
		switch g.r.Intn(3) {
		case 0:
			return "[" + b + "]"
		case 1:
			return fmt.Sprintf("[%s+%d]", b, g.r.Range(1, 120))
		default:
			return fmt.Sprintf("[%s+%d]", b, g.r.Range(128, 4000))
		}
	}
	b := pick(g.r, base16)
	switch g.r.Intn(3) {
	case 0:
		if b == "BP" {
			return "[BP+0]"
		}
		return "[" + b + "]"
	case 1:
		return fmt.Sprintf("[%s+%d]", b, g.r.Range(1, 120))
	default:
		return fmt.Sprintf("[0x%04x]", g.r.Intn(0x10000))
	}
}

// atom: a constant, an EQU name (possibly defined further down the file), rarely a label or $.
func (g *progGen) atom() string {
	r := g.r
	switch r.weighted([]int{5, 4, 1, 1, 1}) {
	case 0:
		if r.Chance(1, 2) {
			return fmt.Sprint(r.Range(0, 64))
		}
		return fmt.Sprintf("0x%x", r.Intn(0x1000))
	case 1:
		if len(g.equs) > 0 {
			return pick(r, g.equs)
		}
		return fmt.Sprint(r.Range(1, 9))
	case 2:
		if len(g.labels) > 0 {
			return pick(r, g.labels)
		}
		return "1"
	case 3:
		return "$"
	default:
		return "'" + string(rune('A'+r.Intn(26))) + "'"
	}
}

// expr: an arithmetic expression with several operators of mixed sign / precedence and
// optional parentheses, e.g. BASE+4-8, (A+2)*3-1, 2*8+1-3, $+2-1.
func (g *progGen) expr(depth int) string {
	r := g.r
	n := r.Range(1, 4)
	var sb strings.Builder
	for i := 0; i < n; i++ {
		if i > 0 {
			sb.WriteString(pick(r, []string{"+", "-", "+", "-", "*", "/"}))
		}
		if depth < 2 && r.Chance(1, 5) {
			sb.WriteString("(" + g.expr(depth+1) + ")")
		} else {
			sb.WriteString(g.atom())
		}
	}
	return sb.String()
}

// addr: the inside of a memory operand with a base register and a multi-operator displacement
func (g *progGen) addr() string {
	r := g.r
	base := pick(r, base16[:4])
	if g.bits32 {
		base = pick(r, regs32)
	}
	tail := ""
	for i, n := 0, r.Range(1, 3); i < n; i++ {
		t := fmt.Sprint(r.Range(1, 60))
		if len(g.equs) > 0 && r.Chance(1, 4) {
			t = pick(r, g.equs)
		}
		tail += pick(r, []string{"+", "-"}) + t
	}
	if g.bits32 && r.Chance(1, 5) {
		tail += "+" + pick(r, regs32[:4])
	}
	if r.Chance(1, 6) {
		return fmt.Sprint(r.Range(1, 60)) + "+" + base + tail
	}
	return base + tail
}

// names that no program ever defines (a callee in another object file, a dangling jump target)
var undefinedTargets = []string{"_extfn", "nowhere", "_memcpy", "undefined_lbl"}

func (g *progGen) target() string {
	if len(g.caseSiblings) > 0 && g.r.Chance(1, 8) {
		return pick(g.r, g.caseSiblings)
	}
	if g.r.Chance(1, 10) {
		return pick(g.r, undefinedTargets)
	}
	if len(g.labels) == 0 {
		return "0"
	}
	return pick(g.r, g.labels)
}

// stmt produces one statement line. The oracle is self-consistency, so a statement gosk
// does not support is still a legal workload item (it takes the log-and-continue path).
// Mnemonics that have a pass-1 handler in gosk (internal/pass1/handlers.go), used for the
// generic mnemonic x operand-shape cross product.
var handled = []string{"MOV", "INT", "ADD", "ADC", "SUB", "SBB", "CMP", "INC", "DEC", "NEG", "MUL", "IMUL", "DIV", "IDIV", "AND", "OR", "XOR", "NOT", "SHR", "SHL", "SAR", "IN", "OUT", "CALL", "LGDT", "PUSH", "POP", "RET", "JMP", "JE", "JNZ", "JB", "JAE", "LIDT", "TEST", "XCHG", "LEA"}

// operand draws one operand of a random shape.
func (g *progGen) operand() string {
	r := g.r
	switch r.Intn(11) {
	case 0:
		return pick(r, regs8)
	case 1:
		return pick(r, regs16)
	case 2:
		return pick(r, regs32)
	case 3:
		return pick(r, sregs)
	case 4:
		return pick(r, []string{"CR0", "CR3", "CS"})
	case 5:
		return g.imm(pick(r, []int{8, 16, 32}))
	case 6:
		return g.target()
	case 7:
		return g.expr(0)
	case 8:
		return g.mem()
	case 9:
		return pick(r, []string{"BYTE", "WORD", "DWORD"}) + " " + g.mem()
	default:
		if g.r.Chance(1, 2) { // segment-qualified operands without brackets: seg:reg, seg:label, seg:imm
			return pick(g.r, sregs) + ":" + pick(g.r, []string{pick(g.r, regs16), pick(g.r, regs16), g.target(), g.imm(16)})
		}
		return "CL"
	}
}

// canonical draws one statement uniformly from the matrix of ordinary x86 forms of the mnemonics
// gosk has handlers for: every accumulator/port form of IN and OUT, every operand-size and
// register/memory/immediate combination of the arithmetic, unary, shift, stack and move
// instructions. The special-cased generators below favour what the book programs use; this one
// makes sure that no legitimate form is unreachable.
func (g *progGen) canonical() string {
	r := g.r
	reg := func(bits int) string {
		switch bits {
		case 8:
			return pick(r, regs8)
		case 16:
			return pick(r, regs16)
		}
		return pick(r, regs32)
	}
	size := func(bits int) string {
		return map[int]string{8: "BYTE", 16: "WORD", 32: "DWORD"}[bits]
	}
	acc := map[int]string{8: "AL", 16: "AX", 32: "EAX"}
	bits := pick(r, []int{8, 16, 32})
	small := func() string { return pick(r, []string{"0x60", "0x21", "0xa0", "0x64", "1", "0x92", "0xff", "0"}) }
	switch r.Intn(14) {
	case 0: // IN acc, DX | imm8
		return "\tIN\t" + acc[bits] + "," + pick(r, []string{"DX", small()})
	case 1: // OUT DX | imm8, acc
		return "\tOUT\t" + pick(r, []string{"DX", small()}) + "," + acc[bits]
	case 2: // arithmetic: r,r  r,imm  r,mem  mem,r  sized mem,imm  acc,imm
		mn := pick(r, append(append([]string{}, arith...), "TEST", "MOV"))
		switch r.Intn(6) {
		case 0:
			return "\t" + mn + "\t" + reg(bits) + "," + reg(bits)
		case 1:
			return "\t" + mn + "\t" + reg(bits) + "," + g.imm(bits)
		case 2:
			return "\t" + mn + "\t" + reg(bits) + "," + g.mem()
		case 3:
			return "\t" + mn + "\t" + g.mem() + "," + reg(bits)
		case 4:
			return "\t" + mn + "\t" + size(bits) + " " + g.mem() + "," + g.imm(bits)
		default:
			return "\t" + mn + "\t" + acc[bits] + "," + g.imm(bits)
		}
	case 3: // unary and multiply/divide on register or sized memory
		mn := pick(r, append(append([]string{}, unary...), "MUL", "IMUL", "DIV", "IDIV"))
		if r.Chance(1, 2) {
			return "\t" + mn + "\t" + reg(bits)
		}
		return "\t" + mn + "\t" + size(bits) + " " + g.mem()
	case 4: // shifts by 1, CL, imm8
		cnt := pick(r, []string{"1", "CL", fmt.Sprint(r.Range(2, 31))})
		if r.Chance(2, 3) {
			return "\t" + pick(r, shifts) + "\t" + reg(bits) + "," + cnt
		}
		return "\t" + pick(r, shifts) + "\t" + size(bits) + " " + g.mem() + "," + cnt
	case 5: // PUSH
		switch r.Intn(5) {
		case 0:
			return "\tPUSH\t" + reg(pick(r, []int{16, 32}))
		case 1:
			return "\tPUSH\t" + pick(r, []string{"ES", "CS", "SS", "DS", "FS", "GS"})
		case 2:
			return "\tPUSH\t" + g.imm(pick(r, []int{8, 16, 32}))
		case 3:
			return "\tPUSH\t" + size(pick(r, []int{16, 32})) + " " + g.mem()
		default:
			return "\tPUSH\t" + g.target()
		}
	case 6: // POP
		switch r.Intn(3) {
		case 0:
			return "\tPOP\t" + reg(pick(r, []int{16, 32}))
		case 1:
			return "\tPOP\t" + pick(r, []string{"ES", "SS", "DS", "FS", "GS"})
		default:
			return "\tPOP\t" + size(pick(r, []int{16, 32})) + " " + g.mem()
		}
	case 7: // MOV with segment and control registers, accumulator <-> absolute address
		switch r.Intn(6) {
		case 0:
			return "\tMOV\t" + pick(r, sregs) + "," + pick(r, regs16)
		case 1:
			return "\tMOV\t" + pick(r, regs16) + "," + pick(r, append([]string{"CS"}, sregs...))
		case 2:
			return "\tMOV\t" + pick(r, []string{"CR0", "CR2", "CR3", "CR4"}) + "," + pick(r, regs32)
		case 3:
			return "\tMOV\t" + pick(r, regs32) + "," + pick(r, []string{"CR0", "CR2", "CR3", "CR4"})
		case 4:
			return "\tMOV\t" + acc[bits] + ",[" + g.addr() + "]"
		default:
			return "\tMOV\t[" + g.addr() + "]," + acc[bits]
		}
	case 8: // XCHG / LEA
		if r.Chance(1, 2) {
			return "\tXCHG\t" + reg(bits) + "," + reg(bits)
		}
		return "\tLEA\t" + reg(pick(r, []int{16, 32})) + "," + g.mem()
	case 9: // IMUL two and three operands
		b := pick(r, []int{16, 32})
		if r.Chance(1, 2) {
			return "\tIMUL\t" + reg(b) + "," + g.imm(pick(r, []int{8, b}))
		}
		return "\tIMUL\t" + reg(b) + "," + reg(b) + "," + g.imm(pick(r, []int{8, b}))
	case 10: // RET / RET imm16 / RETF
		return pick(r, []string{"\tRET", "\tRET\t" + fmt.Sprint(r.Range(0, 64)*2), "\tRETF", "\tRETF\t4"})
	case 11: // CALL / JMP through register or memory
		mn := pick(r, []string{"CALL", "JMP"})
		switch r.Intn(3) {
		case 0:
			return "\t" + mn + "\t" + reg(pick(r, []int{16, 32}))
		case 1:
			return "\t" + mn + "\t" + size(pick(r, []int{16, 32})) + " " + g.mem()
		default:
			if r.Chance(1, 12) { // (a distance keyword in front of a name does not parse in gosk's grammar today)
				return "\t" + mn + "\t" + pick(r, []string{"SHORT ", "NEAR ", "DWORD "}) + g.target()
			}
			return "\t" + mn + "\t" + g.target()
		}
	case 12: // LGDT / LIDT
		return "\t" + pick(r, []string{"LGDT", "LIDT"}) + "\t[" + g.addr() + "]"
	default: // conditional jumps of every kind
		return "\t" + pick(r, jccs) + "\t" + g.target()
	}
}

func (g *progGen) stmt() string {
	r := g.r
	if r.Chance(1, 7) {
		return g.canonical()
	}
	if r.Chance(1, 9) { // generic cross product: handled mnemonic x 0..3 operands of any shape
		n := r.weighted([]int{1, 4, 8, 1})
		ops := make([]string, n)
		for i := range ops {
			ops[i] = g.operand()
		}
		mn := pick(r, handled)
		for mn == "INT" && !r.Chance(1, 10) { // (INT with anything but a small number makes gosk panic)
			mn = pick(r, handled)
		}
		if r.Chance(1, 4) { // any mnemonic the grammar knows, handled by gosk or not
			mn = pick(r, allOpcodes)
			for mn == "END" || mn == "TIMES" || mn == "ALIGN" {
				mn = pick(r, allOpcodes)
			}
		}
		if n == 0 {
			return "\t" + mn
		}
		return "\t" + mn + "\t" + strings.Join(ops, ",")
	}
	if r.Chance(1, 7) { // the same operand text under different mnemonics
		return "\t" + pick(r, []string{"MOV", "MOV", "ADD", "SUB", "CMP", "AND", "OR", "XOR", "ADC", "SBB", "TEST"}) + "\t" + pick(r, sharedOperands)
	}
	switch r.weighted([]int{14, 10, 6, 6, 4, 8, 4, 4, 6, 8, 4, 7, 3, 3}) {
	case 0: // MOV reg, imm
		switch r.Intn(3) {
		case 0:
			return "\tMOV\t" + pick(r, regs8) + "," + g.imm(8)
		case 1:
			return "\tMOV\t" + pick(r, regs16) + "," + g.imm(16)
		default:
			return "\tMOV\t" + pick(r, regs32) + "," + g.imm(32)
		}
	case 1: // MOV reg, reg / mem forms
		switch r.Intn(6) {
		case 0:
			return "\tMOV\t" + pick(r, regs16) + "," + pick(r, regs16)
		case 1:
			return "\tMOV\t" + pick(r, regs8) + "," + pick(r, regs8)
		case 2:
			return "\tMOV\t" + pick(r, regs32) + "," + pick(r, regs32)
		case 3:
			return "\tMOV\t" + g.mem() + "," + pick(r, [][]string{regs16, regs8, regs32, sregs}[r.Intn(4)])
		case 4:
			return "\tMOV\t" + pick(r, [][]string{regs16, regs8, regs32, sregs}[r.Intn(4)]) + "," + g.mem()
		default:
			if r.Chance(1, 2) {
				return "\tMOV\t" + pick(r, regs16) + "," + pick(r, sregs)
			}
			return "\tMOV\t" + pick(r, sregs) + "," + pick(r, regs16)
		}
	case 2: // MOV size [mem], imm
		switch r.Intn(3) {
		case 0:
			return "\tMOV\tBYTE " + g.mem() + "," + g.imm(8)
		case 1:
			return "\tMOV\tWORD " + g.mem() + "," + g.imm(16)
		default:
			return "\tMOV\tDWORD " + g.mem() + "," + g.imm(32)
		}
	case 3: // arithmetic reg, imm
		op := pick(r, arith)
		switch r.Intn(3) {
		case 0:
			return "\t" + op + "\t" + pick(r, regs8) + "," + g.imm(8)
		case 1:
			return "\t" + op + "\t" + pick(r, regs16) + "," + g.imm(8)
		default:
			return "\t" + op + "\t" + pick(r, regs32) + "," + g.imm(32)
		}
	case 4: // arithmetic reg, reg / reg, mem / mem, reg / size mem, imm
		op := pick(r, arith)
		switch r.Intn(6) {
		case 0:
			return "\t" + op + "\t" + pick(r, regs16) + "," + g.mem()
		case 1:
			return "\t" + op + "\t" + g.mem() + "," + pick(r, regs16)
		case 2:
			return "\t" + op + "\t" + pick(r, []string{"BYTE", "WORD", "DWORD"}) + " " + g.mem() + "," + g.imm(8)
		case 3:
			return "\t" + op + "\t" + pick(r, regs8) + "," + pick(r, regs8)
		}
		if r.Chance(1, 2) {
			return "\t" + op + "\t" + pick(r, regs16) + "," + pick(r, regs16)
		}
		return "\t" + op + "\t" + pick(r, regs32) + "," + pick(r, regs32)
	case 5: // jumps / calls: label, immediate address, far seg:off, expression over $ / labels
		op := pick(r, jccs)
		if r.Chance(1, 5) {
			op = "CALL"
		}
		switch r.Intn(12) {
		case 0:
			if op != "JMP" && op != "CALL" && !r.Chance(1, 6) {
				break
			}
			return "\t" + op + "\t" + fmt.Sprintf("0x%x", r.Intn(0x10000))
		case 1:
			return "\t" + pick(r, []string{"JMP", "CALL"}) + "\tDWORD " + fmt.Sprint(r.Range(1, 4)) + "*8:" + fmt.Sprintf("0x%08x", r.Intn(0x100000))
		case 2:
			return "\t" + op + "\t$"
		case 3:
			return "\t" + op + "\t" + g.target() + pick(r, []string{"+", "-"}) + fmt.Sprint(r.Range(1, 5))
		case 4:
			if r.Chance(1, 10) {
				return "\tJMP\t" + pick(r, []string{"SHORT ", "NEAR "}) + g.target()
			}
		}
		return "\t" + op + "\t" + g.target()
	case 6:
		return "\t" + pick(r, noparam)
	case 7:
		switch r.Intn(6) {
		case 0:
			return "\t" + pick(r, unary) + "\t" + pick(r, []string{"BYTE", "WORD", "DWORD"}) + " " + g.mem()
		case 1:
			return "\t" + pick(r, unary) + "\t" + pick(r, regs8)
		case 2:
			return "\t" + pick(r, shifts) + "\t" + pick(r, regs16) + ",CL"
		case 3:
			return "\t" + pick(r, []string{"MUL", "DIV", "IMUL", "IDIV"}) + "\t" + pick(r, regs16)
		}
		if r.Chance(1, 2) {
			return "\t" + pick(r, unary) + "\t" + pick(r, regs16)
		}
		return "\t" + pick(r, shifts) + "\t" + pick(r, regs32) + "," + fmt.Sprint(r.Range(1, 31))
	case 8: // INT / IN / OUT / PUSH / POP
		switch r.Intn(6) {
		case 0:
			if !g.r.Chance(1, 12) { // (gosk panics on INT with a decimal operand above 127: mostly the forms real programs use)
				return "\tINT\t" + pick(g.r, []string{"0x10", "0x13", "0x15", "0x16", "0x21", "0x7f", "3", "0x1a", fmt.Sprint(g.r.Intn(128))})
			}
			return "\tINT\t" + g.imm(8)
		case 1:
			return "\tIN\tAL,DX"
		case 2:
			return "\tOUT\t" + g.imm(8) + ",AL"
		case 3:
			return "\tPUSH\t" + pick(r, [][]string{regs16, regs32, sregs}[r.Intn(3)])
		case 4:
			if r.Chance(1, 4) {
				return "\tPUSH\t" + g.imm(16)
			}
			return "\tPOP\t" + pick(r, [][]string{regs16, regs32, sregs}[r.Intn(3)])
		default:
			return "\tOUT\tDX,AX"
		}
	case 9: // data
		if r.Chance(1, 6) { // operand lists mixing kinds: number, (forward) label, label arithmetic, string, character
			items := []string{g.imm(16), g.target(), g.target() + "+4", "\"AB\"", "'C'", "$", g.expr(1), "\"x\"",
				pick(r, undefinedTargets) + "+2", g.target() + "/0", g.target() + "-" + g.target(), g.target() + "*2"}
			n := r.Range(2, 4)
			xs := make([]string, n)
			for i := range xs {
				xs[i] = pick(r, items)
			}
			return "\t" + pick(r, []string{"DB", "DW", "DD"}) + "\t" + strings.Join(xs, ", ")
		}
		switch r.Intn(5) {
		case 0:
			n := r.Range(1, 6)
			xs := make([]string, n)
			for i := range xs {
				xs[i] = g.imm(8)
			}
			return "\tDB\t" + strings.Join(xs, ", ")
		case 1:
			strs := []string{"hello", "HARIBOTEOS ", "load error", "ab", "x",
				// comment characters and the other quote inside a literal: a comment scanner that is not the parser's must not cut here
				"can't boot; halt", "it's #2; x", "a;b#c", "#;'", "50% ; 'q' # r"}
			if g.nonASCII && r.Chance(1, 2) {
				strs = []string{"こんにちは, world", "ロードエラー", "表示", "ｶﾀｶﾅ", "é", "日本語OS"}
			}
			return "\tDB\t\"" + pick(r, strs) + "\", 0x0a, 0"
		case 2:
			if r.Chance(1, 3) && len(g.labels) > 1 {
				return "\tDW\t" + pick(r, g.labels) + "-" + pick(r, g.labels)
			}
			if r.Chance(1, 4) {
				return "\tDB\t'" + string(rune('a'+r.Intn(26))) + "', '" + string(rune('A'+r.Intn(26))) + "'"
			}
			return "\tDW\t" + g.imm(16) + ", " + g.imm(16)
		case 3:
			return "\tDD\t" + g.imm(32)
		default:
			if len(g.labels) > 0 {
				return "\tDW\t" + pick(r, g.labels)
			}
			return "\tDD\t0xffffffff"
		}
	case 10:
		if r.Chance(1, 6) {
			return "\tRESB\t" + fmt.Sprint(r.Range(2, 9)) + "*" + fmt.Sprint(r.Range(2, 9)) + "-" + fmt.Sprint(r.Range(0, 3))
		}
		if r.Chance(1, 8) {
			return "\tRESB\t" + pick(r, []string{"4096", "5000", "9000", "70000", "65536", "65535", "131072", "32768", "0"})
		}
		if r.Chance(1, 2) {
			return "\tRESB\t" + fmt.Sprint(r.Range(1, 40))
		}
		return "\tALIGNB\t" + pick(r, []string{"2", "4", "8", "16"})
	case 11: // expressions with EQU / $ / labels
		if r.Chance(1, 2) {
			switch r.Intn(5) {
			case 0:
				return "\tMOV\t" + pick(r, regs16) + "," + g.expr(0)
			case 1:
				return "\tDW\t" + g.expr(0) + ", " + g.expr(0)
			case 2:
				return "\tDD\t" + g.expr(0)
			case 3:
				return "\tADD\t" + pick(r, regs16) + "," + g.expr(0)
			default:
				return "\tDB\t" + g.expr(1) + ", " + fmt.Sprint(r.Intn(200))
			}
		}
		if len(g.equs) > 0 && r.Chance(1, 2) {
			e := pick(r, g.equs)
			return "\tMOV\tAX," + e + "*" + fmt.Sprint(r.Range(1, 4)) + "+" + fmt.Sprint(r.Intn(9))
		}
		if r.Chance(1, 2) {
			return "\tDW\t$"
		}
		return "\tMOV\tBX," + g.target()
	case 12: // LGDT / far-ish forms seen in the book programs
		if len(g.labels) > 0 {
			return "\tLGDT\t[" + pick(r, g.labels) + "]"
		}
		return "\tMOV\tCR0,EAX"
	default: // deliberately odd but lexically plausible: exercises the error paths
		return pick(r, []string{
			"\tRET\t4",
			"\tRETF",
			"\tIN\tAX,DX",
			"\tIN\tEAX,DX",
			"\tIN\tAL,0x60",
			"\tOUT\tDX,EAX",
			"\tIMUL\tAX,BX",
			"\tIMUL\tECX,EDX,12",
			"\tLEA\tSI,[BX+4]",
			"\tXCHG\tAX,BX",
			"\tTEST\tAL,1",
			"\tMOVZX\tEAX,AL",
			"\tREP\tMOVSB",
			"\tLOOP\t$",
			"\tMOV\tAX,[ES:BX]",
			"\tMOV\tEAX,CR0",
			"\tMOV\tCR0,EAX",
			"\tIMUL\tECX,4608",
			"\tJMP\tDWORD 2*8:0x0000001b",
			"\tMOV\tAL,[SI]",
			"\tADD\tSI,1",
			"\tMOV\tECX,[EBX+16]",
			"\tSUB\tECX,1",
			"\tADD\tEDI,4",
			"\tSHR\tECX,2",
			"\tMOV\tAX,1*8",
			"\tMOV\tES,AX",
			"\tLIDT\t[ESP+6]",
		})
	}
}

// forceFeature: while one program is generated, the named construct is produced with certainty
// instead of with its usual probability, so that every pool contains every rare construct at least
// once (pool building is sequential). "" = no forcing.
var forceFeature string

func feat(r *RNG, name string, num, den int) bool {
	if forceFeature == name {
		return true
	}
	return r.Chance(num, den)
}

// programFeatures lists the rare program-level constructs that buildPool forces one by one.
var programFeatures = []string{"family", "dotted", "case_sibling", "dup_label", "equ_redef", "alias_chain", "late_org", "jumpstress",
	"extern_overlap", "global_equ", "instrset_pre386", "empty_image", "undefined_target", "seg_operand", "poison_data", "big_resb",
	"mid_org", "mid_directive", "mid_equ_dollar", "edit_twin", "shared_operands", "many_jumps", "big_program"}

type genOpts struct {
	Bits32, Coff bool
	Org          int // <0: none
	NLabels      int
	NStmts       int
	NEqu         int
	NGlobal      int
	Ties         bool // several global names bound to the same address
	Undefined    int  // GLOBAL names never defined
	Extern       int
	ErrRate      int  // per mille of odd statements (already part of stmt mix); extra knob
	NonASCII     bool // allow non-ASCII string literals
}

func drawGenOpts(r *RNG) genOpts {
	o := genOpts{Org: -1}
	o.Bits32 = r.Chance(1, 2)
	o.Coff = r.Chance(2, 5)
	if !o.Coff && r.Chance(2, 3) {
		o.Org = pick(r, []int{0x7c00, 0xc200, 0x100, 0x8000, 0x280000})
	}
	o.NLabels = pick(r, []int{0, 2, 5, 12, 24, 30})
	o.NStmts = pick(r, []int{3, 8, 20, 40, 80, 80})
	o.NEqu = pick(r, []int{0, 0, 2, 6, 12})
	if o.Coff {
		o.NGlobal = pick(r, []int{0, 1, 4, 12, 24, 30})
		o.Ties = r.Chance(2, 3)
		o.Undefined = pick(r, []int{0, 0, 1, 3})
		o.Extern = pick(r, []int{0, 0, 2, 5})
	} else if r.Chance(1, 6) {
		o.NGlobal = r.Range(1, 5)
	}
	if feat(r, "big_program", 1, 25) { // hundreds of statements: thresholds, batch sizes, table growth
		o.NStmts, o.NLabels = pick(r, []int{200, 300, 500}), pick(r, []int{30, 60, 100, 300})
		o.NEqu = pick(r, []int{0, 12, 70, 260})
		if o.Coff {
			o.NGlobal = pick(r, []int{12, 70, 260})
			o.Extern = pick(r, []int{0, 5, 40})
		}
	}
	if feat(r, "empty_image", 1, 25) { // nothing but labels, EQUs and directives: an empty image
		o.NStmts = 0
	}
	return o
}

// genBody makes the statement list (labels, EQUs, GLOBALs, statements) for given options.
func genBody(r *RNG, o genOpts) (body []string, hasEqu, hasGlobal bool) {
	g := &progGen{r: r, used: map[string]bool{}, bits32: o.Bits32, nonASCII: o.NonASCII}
	var equNames []string
	for i := 0; i < o.NEqu; i++ {
		n := strings.ToUpper(g.newName())
		g.used[n] = true
		equNames = append(equNames, n)
	}
	var lateEqus []string // EQU lines placed after the statements that use them
	// every EQU refers to at most one other; a reference that would close a circle is replaced by a
	// number (gosk overflows its stack on circular definitions: such a program tests nothing)
	refOf := map[int]int{}
	other := func(i int) (string, bool) {
		j := r.Intn(len(equNames))
		for k, hops := j, 0; hops <= len(equNames); hops++ {
			if k == i {
				return "", false
			}
			nk, ok := refOf[k]
			if !ok {
				break
			}
			k = nk
		}
		refOf[i] = j
		return equNames[j], true
	}
	for i, n := range equNames {
		var val string
		switch {
		case i > 0 && r.Chance(1, 3): // chain over an earlier name
			j := r.Intn(i)
			refOf[i] = j
			val = equNames[j] + "+" + fmt.Sprint(r.Range(1, 64))
		case r.Chance(1, 4): // expression over any name, including names defined further down
			if o, ok := other(i); ok {
				val = o + pick(r, []string{"+", "-"}) + fmt.Sprint(r.Range(1, 9)) + pick(r, []string{"+", "-", "*"}) + fmt.Sprint(r.Range(1, 9))
			} else {
				val = fmt.Sprintf("0x%04x", r.Intn(0x10000))
			}
		case r.Chance(1, 6) && len(equNames) > 1: // a bare alias of another EQU name, defined before or after this line
			if o, ok := other(i); ok {
				val = o
			} else {
				val = fmt.Sprintf("0x%04x", r.Intn(0x10000))
			}
		case r.Chance(1, 5):
			val = fmt.Sprintf("(%d+%d)*%d-%d", r.Intn(9), r.Intn(9), r.Range(1, 5), r.Intn(9))
		default:
			val = fmt.Sprintf("0x%04x", r.Intn(0x10000))
		}
		line := n + "\tEQU\t" + val
		if r.Chance(1, 4) {
			lateEqus = append(lateEqus, line)
		} else {
			body = append(body, line)
		}
		hasEqu = true
	}
	g.equs = equNames
	if forceFeature == "family" && o.NLabels < 4 {
		o.NLabels = 5
	}
	if o.NLabels >= 4 && feat(r, "family", 1, 3) {
		// a family of long names sharing a stem: the stem itself and 2-3 prefixed variants
		stem := pick(r, nameHeads) + pick(r, []string{"_inthandler21", "_very_long_symbol_name", "_store_cr0_eflags", "_load_gdtr_idtr"})
		fam := []string{stem}
		for _, p := range []string{"_asm", "_dbg", "x", "_"} {
			if r.Chance(2, 3) {
				fam = append(fam, p+stem)
			}
		}
		for _, n := range fam {
			if !g.used[strings.ToUpper(n)] && len(g.labels) < o.NLabels {
				g.used[strings.ToUpper(n)] = true
				g.names = append(g.names, n)
				g.labels = append(g.labels, n)
			}
		}
	}
	for i := len(g.labels); i < o.NLabels; i++ {
		if r.Chance(1, 3) {
			c := pick(r, commonLabels)
			if !g.used[strings.ToUpper(c)] {
				g.used[strings.ToUpper(c)] = true
				g.labels = append(g.labels, c)
				continue
			}
		}
		g.labels = append(g.labels, g.newName())
	}
	// labels with '.' or '$' in their names (the grammar allows them): siblings of existing names that
	// differ only in '.', '$' or '_' (".fin" next to "_fin"), and extensions at a '.' boundary
	// ("msg.end" next to "msg"). gosk cannot jump to them, so they are only defined and used in
	// memory operands and data.
	if len(g.labels) > 0 && feat(r, "dotted", 1, 3) {
		for k, n := 0, r.Range(1, 3); k < n; k++ {
			base := pick(r, g.labels)
			for t := 0; t < 6 && !strings.Contains(base, "_"); t++ {
				base = pick(r, g.labels)
			}
			var d string
			switch r.Intn(4) {
			case 0:
				d = base + pick(r, []string{".end", ".1", "$1", ".loop"})
			case 1:
				d = "." + strings.TrimLeft(base, "_")
			case 2:
				d = strings.Replace(base, "_", pick(r, []string{".", "$"}), 1)
			default:
				d = pick(r, []string{".loop", ".L1", "skip$1", "a.b.c"})
			}
			if d == base || g.used[strings.ToUpper(d)] || strings.ContainsAny(d[:1], "0123456789") {
				continue
			}
			g.used[strings.ToUpper(d)] = true
			g.dotted = append(g.dotted, d)
			if strings.NewReplacer(".", "_", "$", "_").Replace(d) == base {
				g.mustJump = append(g.mustJump, base) // the plain sibling is a jump target
			}
		}
	}
	// names that differ only in letter case from another name, and labels spelled like a register or a
	// mnemonic in lower case: identifiers are case-sensitive, mnemonics and registers are upper-case
	if len(g.labels) > 0 && feat(r, "case_sibling", 1, 5) {
		base := pick(r, g.labels)
		var d string
		switch r.Intn(3) {
		case 0:
			d = strings.ToUpper(base)
		case 1:
			d = strings.ToUpper(base[:1]) + base[1:]
		default:
			d = pick(r, []string{"ax", "si", "eax", "mov", "hlt", "db", "Fin", "Msg"})
		}
		if d != base && !containsStr(g.labels, d) && !containsStr(g.caseSiblings, d) {
			g.caseSiblings = append(g.caseSiblings, d)
		}
	}
	// GLOBAL declarations: a subset of labels in shuffled order + undefined names + duplicates
	var globals []string
	if o.NGlobal > 0 && len(g.labels) > 0 {
		perm := make([]string, len(g.labels))
		copy(perm, g.labels)
		for i := len(perm) - 1; i > 0; i-- {
			j := r.Intn(i + 1)
			perm[i], perm[j] = perm[j], perm[i]
		}
		n := o.NGlobal
		if n > len(perm) {
			n = len(perm)
		}
		globals = append(globals, perm[:n]...)
	}
	for i := 0; i < o.Undefined; i++ {
		globals = append(globals, g.newName()+"_undef")
	}
	if len(g.equs) > 0 && len(globals) > 0 && feat(r, "global_equ", 1, 4) {
		globals = append(globals, pick(r, g.equs)) // a GLOBAL that names an EQU constant
	}
	if len(globals) > 1 && r.Chance(1, 5) {
		globals = append(globals, globals[0]) // duplicate declaration
	}
	declaredGlobals := append([]string(nil), globals...)
	for len(globals) > 0 {
		k := r.Range(1, 5)
		if k > len(globals) {
			k = len(globals)
		}
		body = append(body, "\tGLOBAL\t"+strings.Join(globals[:k], ", "))
		globals = globals[k:]
		hasGlobal = true
	}
	var externs []string
	for i := 0; i < o.Extern; i++ {
		externs = append(externs, g.newName()+"_ext")
	}
	if len(externs) > 0 && feat(r, "extern_overlap", 1, 2) {
		// irregular but tolerated declarations: a name both GLOBAL and EXTERN, an EXTERN repeated
		if len(declaredGlobals) > 0 {
			at := r.Intn(len(externs) + 1)
			externs = append(externs[:at:at], append([]string{pick(r, declaredGlobals)}, externs[at:]...)...)
		}
		if r.Chance(1, 2) {
			externs = append([]string{externs[len(externs)-1]}, externs...)
		}
	}
	for len(externs) > 0 { // several names per statement
		k := r.Range(1, 4)
		if k > len(externs) {
			k = len(externs)
		}
		body = append(body, "\tEXTERN\t"+strings.Join(externs[:k], ", "))
		externs = externs[k:]
	}
	if o.Coff {
		body = append(body, "[SECTION .text]")
	}
	// Statements with labels spread among them; with Ties several labels share an address.
	pending := append(append(append([]string(nil), g.labels...), g.dotted...), g.caseSiblings...)
	for i := len(pending) - 1; i > 0; i-- { // dotted labels anywhere among the others
		if j := r.Intn(i + 1); len(g.dotted) > 0 {
			pending[i], pending[j] = pending[j], pending[i]
		}
	}
	known := g.labels
	g.labels = known // all labels are referable (forward references included)
	for i := 0; i < o.NStmts; i++ {
		remaining := o.NStmts - i
		if !o.Coff && (r.Chance(1, 30) || (forceFeature == "mid_org" && i == o.NStmts/2)) { // ORG after data or code, or a second ORG
			body = append(body, fmt.Sprintf("\tORG\t0x%x", pick(r, []int{0x7c00, 0xc200, 0x100, 0x8000, 0})))
		}
		if r.Chance(1, 40) || (forceFeature == "mid_directive" && i == o.NStmts/2) { // a configuration directive in the middle of the code, possibly repeated
			body = append(body, pick(r, []string{"[SECTION .data]", "[SECTION .bss]", "[SECTION .text]", "[BITS 16]", "[BITS 32]", "[ABSOLUTE 0x100]", "[OPTIMIZE 1]", "[PADDING 2]", `[FILE "second.nas"]`, `[INSTRSET "i386"]`, `[FORMAT "BIN"]`}))
		}
		if r.Chance(1, 40) || (forceFeature == "mid_equ_dollar" && i == o.NStmts/2) { // EQUs over the location counter and over label differences, defined mid-program
			n := strings.ToUpper(g.newName())
			g.used[n] = true
			v := "$"
			switch r.Intn(3) {
			case 0:
				if len(g.labels) > 0 {
					v = "$-" + pick(r, g.labels)
				}
			case 1:
				if len(g.equs) > 1 {
					v = pick(r, g.equs) + "+" + pick(r, g.equs) + "*2-1"
				}
			}
			body = append(body, n+"\tEQU\t"+v)
			g.equs = append(g.equs, n)
			hasEqu = true
		}
		for len(pending) > 0 && (r.Intn(remaining+1) < len(pending)) {
			body = append(body, pending[0]+":")
			pending = pending[1:]
			if !(o.Ties && r.Chance(1, 2)) {
				break
			}
		}
		body = append(body, g.stmt())
	}
	for _, l := range pending {
		body = append(body, l+":")
	}
	if len(g.labels) > 0 && feat(r, "dup_label", 1, 10) { // a label defined twice
		body = append(body, pick(r, g.labels)+":", "\tNOP")
	}
	if len(g.equs) > 0 && feat(r, "equ_redef", 1, 10) { // an EQU name redefined, or also defined as a label
		if r.Chance(1, 2) {
			body = append(body, pick(r, g.equs)+"\tEQU\t"+fmt.Sprintf("0x%x", r.Intn(0x1000)))
		} else {
			body = append(body, pick(r, g.equs)+":")
		}
	}
	for _, t := range g.mustJump {
		body = append(body, "\t"+pick(r, []string{"JMP", "JE", "JNZ", "CALL"})+"\t"+t)
	}
	body = append(body, lateEqus...)
	if feat(r, "alias_chain", 1, 4) {
		// use -> alias -> target: a constant used before the EQU that defines it, which is itself a bare
		// alias of an EQU defined even later (chains of 1-3 aliases)
		depth := r.Range(1, 3)
		names := make([]string, depth+1)
		for i := range names {
			names[i] = strings.ToUpper(g.newName())
			g.used[names[i]] = true
		}
		use := []string{"\tMOV\t" + pick(r, regs16) + "," + names[0], "\tMOV\t" + pick(r, regs16) + "," + names[0], "\tPUSH\t" + names[0], "\tMOV\tBX," + names[0] + "+1", "\tMOV\t" + pick(r, regs32) + "," + names[0]}
		for k, m := 0, r.Range(1, 3); k < m; k++ {
			at := r.Intn(len(body) + 1)
			body = append(body[:at:at], append([]string{pick(r, use)}, body[at:]...)...)
		}
		for i := 0; i < depth; i++ {
			body = append(body, names[i]+"\tEQU\t"+names[i+1])
		}
		body = append(body, names[depth]+"\tEQU\t"+fmt.Sprintf("0x%03x", r.Intn(0x1000)))
		hasEqu = true
	}
	return
}

var instrSets = []string{"8086", "i186", "i286", "i286p", "i386", "i386p", "i486", "i486p", "pentium", "p6"}

func headerFor(o genOpts, r *RNG) []string {
	var h []string
	if o.Coff {
		h = append(h, `[FORMAT "WCOFF"]`)
		if o.Bits32 || r.Chance(1, 2) {
			h = append(h, `[INSTRSET "i486p"]`)
		}
	} else {
		if forceFeature == "instrset_pre386" {
			h = append(h, `[INSTRSET "`+pick(r, instrSets[:4])+`"]`)
		} else if r.Chance(1, 3) { // any instruction-set level, also the pre-386 ones
			h = append(h, `[INSTRSET "`+pick(r, instrSets)+`"]`)
		}
		if r.Chance(1, 8) {
			h = append(h, `[FORMAT "BIN"]`)
		}
	}
	if r.Chance(1, 8) {
		h = append(h, pick(r, []string{"[OPTIMIZE 1]", "[OPTIMIZE 0]", "[PADDING 1]", "[PADSET 0]", "[BITS 16]"}))
	}
	if o.Bits32 {
		h = append(h, "[BITS 32]")
	}
	if o.Coff && r.Chance(4, 5) {
		h = append(h, `[FILE "`+pick(r, []string{"naskfunc.nas", "a.nas", "verylongsourcefilename.nas", "x"})+`"]`)
	}
	if o.Org >= 0 {
		h = append(h, fmt.Sprintf("\tORG\t0x%x", o.Org))
	}
	return h
}

// genJumpStress: labels whose distances cluster around the rel8 limit (126..130 bytes) with
// interlocked forward and backward jumps across them - branch relaxation territory: whether a
// jump is short or near depends on the sizes of the jumps it spans.
func genJumpStress(r *RNG) []string {
	n := r.Range(3, 7)
	var body []string
	lbl := func(i int) string { return fmt.Sprintf("jl%d", i) }
	for i := 0; i < n; i++ {
		body = append(body, lbl(i)+":")
		// one or two jumps to neighbours, some spanning the next block(s)
		for k, m := 0, r.Range(1, 2); k < m; k++ {
			t := i + r.Range(-2, 3)
			if t < 0 {
				t = 0
			}
			if t > n {
				t = n
			}
			body = append(body, "\t"+pick(r, []string{"JMP", "JE", "JNZ", "JC", "JAE"})+"\t"+lbl(t))
		}
		// filler that puts the next label close to the short-jump limit
		fill := pick(r, []int{118, 120, 121, 122, 123, 124, 125, 126, 127, 128, 60, 30, 250})
		if r.Chance(1, 2) {
			body = append(body, fmt.Sprintf("\tRESB\t%d", fill))
		} else {
			body = append(body, fmt.Sprintf("\tRESB\t%d", fill-3), "\tMOV\tAX,0")
		}
	}
	body = append(body, lbl(n)+":", "\tHLT")
	return body
}

// genManyJumps: dozens to hundreds of label-referencing jumps and calls in one program (anything
// that batches, chunks or caches label references only shows with many of them).
func genManyJumps(r *RNG) []string {
	n := pick(r, []int{33, 40, 48, 65, 70, 100, 130, 257})
	nl := r.Range(4, 24)
	lbl := func(i int) string { return fmt.Sprintf("mj%d", i) }
	var body []string
	next := 0
	for i := 0; i < n; i++ {
		if next < nl && r.Chance(nl, n) {
			body = append(body, lbl(next)+":")
			next++
		}
		body = append(body, "\t"+pick(r, []string{"JMP", "JMP", "JE", "JNZ", "JC", "JAE", "JB", "CALL", "JMP", "JNE"})+"\t"+lbl(r.Intn(nl)))
		if r.Chance(1, 3) {
			body = append(body, pick(r, []string{"\tNOP", "\tMOV\tAX,0", "\tHLT", "\tRESB\t3", "\tDB\t1,2", "\tADD\tSI,1"}))
		}
	}
	for ; next < nl; next++ {
		body = append(body, lbl(next)+":", "\tNOP")
	}
	return body
}

// genProgram draws one generated program; with twin=true it also returns its twin: the
// same statement lines under a different mode/format/origin header.
func genProgram(r *RNG, name string, twin bool, nonASCII bool) []*Program {
	o := drawGenOpts(r)
	switch forceFeature {
	case "late_org", "mid_org", "instrset_pre386", "big_resb":
		o.Coff = false
		if forceFeature == "late_org" {
			o.Org = -1
		}
	case "extern_overlap", "global_equ", "family":
		o.Coff = true
		o.Org = -1
		if o.NLabels < 5 {
			o.NLabels = 12
		}
		if o.NGlobal < 4 {
			o.NGlobal = 12
		}
		if o.Extern < 2 {
			o.Extern = 3
		}
		if o.NEqu < 2 {
			o.NEqu = 4
		}
	case "equ_redef", "alias_chain", "mid_equ_dollar":
		if o.NEqu < 2 {
			o.NEqu = 4
		}
	case "edit_twin":
		twin = true
	}
	if forceFeature != "" && forceFeature != "empty_image" {
		if o.NLabels < 2 {
			o.NLabels = 5
		}
		if o.NStmts < 8 {
			o.NStmts = 20
		}
	}
	o.NonASCII = nonASCII && r.Chance(1, 3)
	body, hasEqu, hasGlobal := genBody(r, o)
	if !o.Coff && o.Org < 0 && len(body) > 3 && feat(r, "late_org", 1, 2) {
		// the only ORG comes after a few bytes of data or code (the location counter is not 0 at that point)
		at := r.Range(1, 6)
		if at > len(body)-1 {
			at = len(body) - 1
		}
		pre := []string{"\tDB\t0xeb, 0x4e, 0x90", fmt.Sprintf("\tORG\t0x%x", pick(r, []int{0x100, 0x7c00, 0xc200, 0x8000}))}
		body = append(body[:at:at], append(pre, body[at:]...)...)
	}
	if feat(r, "jumpstress", 1, 6) {
		body = append(body, genJumpStress(r)...)
	}
	if feat(r, "many_jumps", 1, 12) {
		body = append(body, genManyJumps(r)...)
	}
	switch forceFeature { // statement-level constructs: one explicit instance
	case "undefined_target":
		body = append(body, "\t"+pick(r, []string{"JMP", "CALL", "JNZ"})+"\t"+pick(r, undefinedTargets))
	case "seg_operand":
		body = append(body, "\tMOV\tAX,"+pick(r, sregs)+":"+pick(r, regs16), "\tMOV\t"+pick(r, regs16)+",15")
	case "poison_data":
		body = append(body, "\tDW\t512, "+pick(r, undefinedTargets)+"+2", "\tDD\t1, 2")
	case "big_resb":
		body = append(body, "\tRESB\t"+pick(r, []string{"65536", "131072"}))
	case "shared_operands":
		op := pick(r, sharedOperands)
		body = append(body, "\tMOV\t"+op, "\tCMP\t"+op)
	}
	p := &Program{Name: name, Header: headerFor(o, r), Body: body, Origin: "gen"}
	classify(p)
	p.HasEQU, p.HasGlobal = hasEqu, hasGlobal
	p.ErrPath = true // the statement mix always may contain unsupported forms; measured later
	out := []*Program{p}
	if twin && feat(r, "edit_twin", 1, 2) {
		// "edit" twin: the same program after a one-line edit that changes a size (edit-and-reassemble):
		// same header, same number of statements and labels, but label addresses move
		var cand []int
		for i, l := range body {
			if strings.HasPrefix(l, "\tRESB\t") || strings.HasPrefix(l, "\tDB\t") {
				cand = append(cand, i)
			}
		}
		if len(cand) > 0 {
			i := cand[r.Intn(len(cand))]
			if len(cand) > 2 && r.Chance(2, 3) {
				i = cand[r.Intn(len(cand)/2+1)] // early in the file: more labels move
			}
			body2 := append([]string(nil), body...)
			if strings.HasPrefix(body[i], "\tRESB\t") {
				body2[i] = body[i] + "+" + fmt.Sprint(pick(r, []int{1, 2, 16, 100, 128}))
			} else {
				body2[i] = body[i] + ", 0x90" + strings.Repeat(", 0", r.Intn(9))
			}
			q := &Program{Name: name + "_edit", Header: p.Header, Body: body2, Origin: "twin"}
			classify(q)
			q.HasEQU, q.HasGlobal = hasEqu, hasGlobal
			q.ErrPath = true
			return append(out, q)
		}
	}
	if twin {
		o2 := o
		switch r.Intn(3) {
		case 0:
			o2.Bits32 = !o.Bits32
		case 1:
			o2.Coff = !o.Coff
			if o2.Coff {
				o2.Org = -1
			}
		default:
			if o.Coff {
				o2.Bits32 = !o.Bits32
			} else if o.Org >= 0 {
				o2.Org = o.Org + 0x1000
			} else {
				o2.Org = 0x7c00
			}
		}
		body2 := body
		if o2.Coff != o.Coff {
			// [SECTION .text] belongs to the header choice
			body2 = nil
			for _, l := range body {
				if l != "[SECTION .text]" {
					body2 = append(body2, l)
				}
			}
			if o2.Coff {
				body2 = append([]string{"[SECTION .text]"}, body2...)
			}
		}
		q := &Program{Name: name + "_twin", Header: headerFor(o2, r), Body: body2, Origin: "twin"}
		classify(q)
		q.HasEQU, q.HasGlobal = hasEqu, hasGlobal
		q.ErrPath = true
		out = append(out, q)
	}
	return out
}

func containsStr(xs []string, x string) bool {
	for _, y := range xs {
		if y == x {
			return true
		}
	}
	return false
}
