package main

import (
	"encoding/json"
	"fmt"
	"os"
	"path/filepath"
)

// runReplay re-executes a replay file against the current working tree of the repository.
// Exit 1 (and a VIOLATION line) iff the recorded violation class reproduces; 0 otherwise.
func runReplay(path string) int {
	raw, err := os.ReadFile(path)
	if err != nil {
		infraFail("replay: %v", err)
	}
	var rf ReplayFile
	if err := json.Unmarshal(raw, &rf); err != nil {
		infraFail("replay: bad file: %v", err)
	}
	fmt.Printf("replay %s: property=%s kind=%s class=%s exact=%v\n", path, rf.Property, rf.Kind, rf.Violation.Class, rf.Exact)
	switch rf.Kind {
	case "c10-history", "c10-fresh", "c10-cli":
		return replayC10(&rf, path)
	case "c19-scenario":
		return replayC19(&rf, path)
	}
	infraFail("replay: unknown kind %q", rf.Kind)
	return 2
}

func replayC10(rf *ReplayFile, path string) int {
	b := doBuild(true)
	c := &simCtx{b: b, runRoot: filepath.Join(b.Scratch, "runs")}
	reproduced := func(v *Violation) int {
		fmt.Printf("VIOLATION property=C10 replay=%s\n  reproduced: class=%s\n  %s\n  expected: %s\n  observed: %s\n", path, v.Class, v.Detail, v.Expected, v.Observed)
		cleanupAll()
		return 1
	}
	notRepro := func(msg string) int {
		fmt.Printf("NOT-REPRODUCED property=C10 %s\n", msg)
		cleanupAll()
		return 0
	}
	switch rf.Kind {
	case "c10-fresh":
		var outs []RefOutcome
		for _, s := range rf.Pair {
			o, _ := refOutcomeOf(c.runSpec(s))
			o.ExitCode = 0
			outs = append(outs, o)
		}
		if len(outs) == 2 && outs[0] != outs[1] {
			v := rf.Violation
			v.Expected, v.Observed = outs[0].String(), outs[1].String()
			return reproduced(&v)
		}
		return notRepro("the two fresh processes agree")
	case "c10-cli":
		tries := 10
		if rf.Exact {
			tries = 1
		}
		for t := 0; t < tries; t++ {
			a, bb := c.runCli(rf.CliPair[0]), c.runCli(rf.CliPair[1])
			if a != bb {
				v := rf.Violation
				v.Expected, v.Observed = a.String(), bb.String()
				return reproduced(&v)
			}
		}
		return notRepro(fmt.Sprintf("the two CLI runs agree in %d attempts", tries))
	}
	// history: recompute F from the recorded fresh-process reference scripts
	F := map[string]*RefOutcome{}
	for key, specs := range rf.RefSpecs {
		var first *RefOutcome
		for _, s := range specs {
			o, _ := refOutcomeOf(c.runSpec(s))
			o.ExitCode = 0
			if first == nil {
				oo := o
				first = &oo
			} else if *first != o {
				v := Violation{Property: "C10", Class: "I2-fresh-processes-disagree", ProgKey: key, Detail: "while recomputing references for the replay, two fresh processes disagreed", Expected: first.String(), Observed: o.String()}
				return reproduced(&v)
			}
		}
		F[key] = first
	}
	tries := 1
	if !rf.Exact {
		tries = 10
	}
	for t := 0; t < tries; t++ {
		res := c.runSpec(rf.Spec)
		v, _, err := evalHistorySafe(rf.Spec, res, F, map[string]string{})
		if err != nil {
			infraFail("replay: %v", err)
		}
		if v != nil && v.Class == rf.Violation.Class {
			return reproduced(v)
		}
		if v != nil {
			fmt.Printf("  note: a different violation class appeared: %s\n", v.Class)
			return reproduced(v)
		}
	}
	return notRepro(fmt.Sprintf("history satisfied the model in %d attempt(s)", tries))
}
