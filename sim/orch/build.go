package main

import (
	"encoding/json"
	"fmt"
	"os"
	"os/exec"
	"path/filepath"
	"strings"
	"time"
)

// Build products of one check invocation. Everything lives in a scratch directory that is
// removed when the check ends.
type Build struct {
	Scratch      string
	Cli          string // shipped binary, default toolchain
	CliSim       string // same command, go1.26.8 + seeded runtime entropy
	WorkerNative string // harness, default toolchain, real clock and entropy
	WorkerSim    string // harness, go1.26.8, synctest bubble + seeded runtime entropy
	RepoDir      string
	VerifDir     string
	BuildSecs    float64
	GoDefault    string
	GoSim        string
}

const repoDirDefault = "/repo"

func goEnv() []string {
	env := os.Environ()
	out := env[:0:0]
	for _, e := range env {
		if strings.HasPrefix(e, "GOFLAGS=") || strings.HasPrefix(e, "GOPROXY=") || strings.HasPrefix(e, "GOSUMDB=") || strings.HasPrefix(e, "GOTOOLCHAIN=") {
			continue
		}
		out = append(out, e)
	}
	return append(out, "GOFLAGS=-mod=mod", "GOPROXY=off", "GOSUMDB=off", "GOTOOLCHAIN=local")
}

func verifDir() string {
	if d := os.Getenv("VERIF_DIR"); d != "" {
		return d
	}
	return "/verif"
}

func repoDir() string {
	if d := os.Getenv("VERIF_REPO"); d != "" {
		return d
	}
	return repoDirDefault
}

// infraFail reports trouble that is not a verdict about gosk: exit 2, never a VIOLATION line.
func infraFail(format string, a ...any) {
	fmt.Fprintf(os.Stderr, "INFRA-ERROR: "+format+"\n", a...)
	cleanupAll()
	os.Exit(2)
}

var cleanups []func()

func cleanupAll() {
	for i := len(cleanups) - 1; i >= 0; i-- {
		cleanups[i]()
	}
	cleanups = nil
}

func scratchRoot() string {
	// Prefer a tmpfs; fall back to $TMPDIR / /tmp.
	for _, d := range []string{os.Getenv("VERIF_SCRATCH"), "/dev/shm", os.Getenv("TMPDIR"), "/tmp"} {
		if d == "" {
			continue
		}
		if st, err := os.Stat(d); err == nil && st.IsDir() {
			return d
		}
	}
	return "/tmp"
}

func runCmd(dir string, env []string, name string, args ...string) (string, error) {
	c := exec.Command(name, args...)
	c.Dir = dir
	c.Env = env
	b, err := c.CombinedOutput()
	return string(b), err
}

// patchRuntimeRand produces the seeded-entropy variant of go1.26.8's runtime/rand.go by
// exact-match replacement; if the upstream text is not what we expect the build fails.
func patchRuntimeRand(src string) (string, error) {
	type edit struct{ old, new string }
	edits := []edit{
		{ // (1) constant start-up seed: fixes the process-wide hash keys (aeskeysched / hashkey)
			"\tseed := &globalRand.seed\n\tif len(startupRand) >= 16 &&",
			"\tseed := &globalRand.seed\n\tfor i := range seed {\n\t\tseed[i] = byte(i*37 + 11)\n\t}\n\tif true {\n\t} else if len(startupRand) >= 16 &&",
		},
		{ // (2) seeded stream on the simulation goroutine
			"func rand() uint64 {\n",
			"func rand() uint64 {\n" +
				"\tif verifGoid != 0 {\n" +
				"\t\tif gp := getg(); gp != nil && gp.goid == verifGoid {\n" +
				"\t\t\tif !verifInitDone {\n\t\t\t\tverifInit()\n\t\t\t}\n" +
				"\t\t\tverifN++\n" +
				"\t\t\tverifCtr += 0x9E3779B97F4A7C15\n" +
				"\t\t\tz := verifCtr + verifSeed\n" +
				"\t\t\tz = (z ^ (z >> 30)) * 0xBF58476D1CE4E5B9\n" +
				"\t\t\tz = (z ^ (z >> 27)) * 0x94D049BB133111EB\n" +
				"\t\t\treturn z ^ (z >> 31)\n" +
				"\t\t}\n" +
				"\t}\n",
		},
		{ // (3) state and setters
			"//go:linkname maps_rand internal/runtime/maps.rand\nfunc maps_rand() uint64 {\n\treturn rand()\n}\n",
			"//go:linkname maps_rand internal/runtime/maps.rand\nfunc maps_rand() uint64 {\n\treturn rand()\n}\n\n" +
				"// --- /verif seeded-entropy seam (scratch build only) ---\n" +
				"// Default: the main goroutine (goid 1) draws from a stream whose seed comes from\n" +
				"// VERIFSIM_INIT_SEED, so that maps built in init() are laid out reproducibly.\n" +
				"var verifGoid uint64 = 1\n" +
				"var verifSeed uint64 = 0x1234567\n" +
				"var verifCtr, verifN uint64\n" +
				"var verifInitDone bool\n\n" +
				"func verifInit() {\n" +
				"\tverifInitDone = true\n" +
				"\tif s := gogetenv(\"VERIFSIM_INIT_SEED\"); s != \"\" {\n" +
				"\t\tvar v uint64\n" +
				"\t\tfor i := 0; i < len(s); i++ {\n" +
				"\t\t\tif s[i] >= '0' && s[i] <= '9' {\n" +
				"\t\t\t\tv = v*10 + uint64(s[i]-'0')\n" +
				"\t\t\t}\n" +
				"\t\t}\n" +
				"\t\tverifSeed = v\n" +
				"\t}\n" +
				"}\n\n" +
				"//go:linkname verifSetMapSeed\n" +
				"func verifSetMapSeed(s uint64) {\n" +
				"\tverifInitDone = true\n" +
				"\tverifSeed = s\n" +
				"\tverifCtr = 0\n" +
				"\tverifN = 0\n" +
				"\tverifGoid = getg().goid\n" +
				"}\n\n" +
				"//go:linkname verifMapDraws\n" +
				"func verifMapDraws() uint64 { return verifN }\n",
		},
	}
	for i, e := range edits {
		if strings.Count(src, e.old) != 1 {
			return "", fmt.Errorf("runtime/rand.go edit %d: anchor text found %d times, expected exactly 1", i+1, strings.Count(src, e.old))
		}
		src = strings.Replace(src, e.old, e.new, 1)
	}
	return src, nil
}

func doBuild(wantSim bool) *Build {
	t0 := time.Now()
	b := &Build{RepoDir: repoDir(), VerifDir: verifDir()}
	// remove scratch directories abandoned by runs that were killed (older than 6 hours)
	if ents, err := os.ReadDir(scratchRoot()); err == nil {
		for _, e := range ents {
			if strings.HasPrefix(e.Name(), "verifsim-") {
				if info, err := e.Info(); err == nil && time.Since(info.ModTime()) > 6*time.Hour {
					unmountUnder(filepath.Join(scratchRoot(), e.Name()))
					os.RemoveAll(filepath.Join(scratchRoot(), e.Name()))
				}
			}
		}
	}
	scratch, err := os.MkdirTemp(scratchRoot(), "verifsim-")
	if err != nil {
		infraFail("mktemp: %v", err)
	}
	os.Chmod(scratch, 0755)
	b.Scratch = scratch
	cleanups = append(cleanups, func() { unmountUnder(scratch); os.RemoveAll(scratch) })
	env := goEnv()

	if out, err := runCmd(b.RepoDir, env, "go", "version"); err == nil {
		b.GoDefault = strings.TrimSpace(out)
	} else {
		infraFail("default go toolchain unusable: %v %s", err, out)
	}

	// 1. the shipped binary
	b.Cli = filepath.Join(scratch, "gosk")
	if out, err := runCmd(b.RepoDir, env, "go", "build", "-o", b.Cli, "./cmd/gosk"); err != nil {
		infraFail("go build ./cmd/gosk failed: %v\n%s", err, out)
	}

	// 2. overlay for the harness package
	wdir := filepath.Join(b.VerifDir, "sim", "worker")
	repl := map[string]string{}
	ents, err := os.ReadDir(wdir)
	if err != nil {
		infraFail("worker sources: %v", err)
	}
	for _, e := range ents {
		if strings.HasSuffix(e.Name(), ".go") {
			repl[filepath.Join(b.RepoDir, "internal", "verifsim_worker", e.Name())] = filepath.Join(wdir, e.Name())
		}
	}
	writeOverlay := func(name string, extra map[string]string) string {
		m := map[string]string{}
		for k, v := range repl {
			m[k] = v
		}
		for k, v := range extra {
			m[k] = v
		}
		p := filepath.Join(scratch, name)
		js, _ := json.Marshal(map[string]any{"Replace": m})
		if err := os.WriteFile(p, js, 0644); err != nil {
			infraFail("overlay: %v", err)
		}
		return p
	}
	ovNative := writeOverlay("overlay.native.json", nil)
	b.WorkerNative = filepath.Join(scratch, "worker.native")
	if out, err := runCmd(b.RepoDir, env, "go", "test", "-c", "-vet=off", "-overlay", ovNative, "-o", b.WorkerNative, "./internal/verifsim_worker"); err != nil {
		infraFail("building native worker failed: %v\n%s", err, out)
	}

	if wantSim {
		gosim := "go1.26.8"
		out, err := runCmd(b.RepoDir, env, gosim, "env", "GOROOT")
		if err != nil {
			infraFail("go1.26.8 not usable (sim variant unavailable): %v %s", err, out)
		}
		goroot := strings.TrimSpace(out)
		if v, err := runCmd(b.RepoDir, env, gosim, "version"); err == nil {
			b.GoSim = strings.TrimSpace(v)
		}
		randPath := filepath.Join(goroot, "src", "runtime", "rand.go")
		raw, err := os.ReadFile(randPath)
		if err != nil {
			infraFail("read %s: %v", randPath, err)
		}
		patched, err := patchRuntimeRand(string(raw))
		if err != nil {
			infraFail("runtime entropy patch does not apply: %v", err)
		}
		pp := filepath.Join(scratch, "rand_patched.go")
		if err := os.WriteFile(pp, []byte(patched), 0644); err != nil {
			infraFail("write patched runtime: %v", err)
		}
		ovSim := writeOverlay("overlay.sim.json", map[string]string{randPath: pp})
		// the shipped command built with the seeded-entropy runtime: main() runs on goroutine 1, whose
		// map entropy comes from VERIFSIM_INIT_SEED, so CLI fresh-process runs replay exactly
		b.CliSim = filepath.Join(scratch, "gosk.sim")
		if out, err := runCmd(b.RepoDir, env, gosim, "build", "-overlay", ovSim, "-o", b.CliSim, "./cmd/gosk"); err != nil {
			infraFail("building seeded-entropy CLI failed: %v\n%s", err, out)
		}
		b.WorkerSim = filepath.Join(scratch, "worker.sim")
		if out, err := runCmd(b.RepoDir, env, gosim, "test", "-c", "-vet=off", "-tags", "verifsim_bubble", "-overlay", ovSim, "-o", b.WorkerSim, "./internal/verifsim_worker"); err != nil {
			infraFail("building sim worker failed: %v\n%s", err, out)
		}
	}
	for _, p := range []string{b.Cli, b.CliSim, b.WorkerNative, b.WorkerSim} {
		if p != "" {
			os.Chmod(p, 0755)
		}
	}
	b.BuildSecs = time.Since(t0).Seconds()
	return b
}
