package main

import (
	"encoding/json"
	"fmt"
	"os"
	"path/filepath"
	"strconv"
	"strings"
	"time"
)

// ---------- known findings (committed file, never written at run time) ----------

type Finding struct {
	Property  string `json:"property"`
	Status    string `json:"status"` // known | fixed
	Signature string `json:"signature"`
	Commit    string `json:"commit,omitempty"`
	What      string `json:"what"`
}

type FindingsFile struct {
	Findings []Finding `json:"findings"`
}

func loadFindings() []Finding {
	p := filepath.Join(verifDir(), "known_findings.json")
	b, err := os.ReadFile(p)
	if err != nil {
		return nil
	}
	var f FindingsFile
	if err := json.Unmarshal(b, &f); err != nil {
		infraFail("known_findings.json is not valid JSON: %v", err)
	}
	return f.Findings
}

// matchKnown returns the `known` entry that lists this violation signature, if any.
// `fixed` entries suppress nothing.
func matchKnown(fs []Finding, prop, sig string) *Finding {
	for i := range fs {
		if fs[i].Property == prop && fs[i].Status == "known" && fs[i].Signature == sig {
			return &fs[i]
		}
	}
	return nil
}

// ---------- seeds, tiers ----------

func baseSeedFromEnv() uint64 {
	s := os.Getenv("VERIF_SEED")
	if s == "" {
		return 1
	}
	v, err := strconv.ParseInt(s, 10, 64)
	if err != nil {
		u, err2 := strconv.ParseUint(s, 10, 64)
		if err2 != nil {
			infraFail("VERIF_SEED=%q is not an integer", s)
		}
		return u
	}
	return uint64(v)
}

func envInt(name string, def int) int {
	if s := os.Getenv(name); s != "" {
		if v, err := strconv.Atoi(s); err == nil {
			return v
		}
	}
	return def
}

// ---------- replay files ----------

type ReplayFile struct {
	Property              string                `json:"property"`
	Kind                  string                `json:"kind"` // c10-history | c10-fresh | c10-cli | c19-scenario
	BaseSeed              uint64                `json:"verif_seed"`
	Tier                  string                `json:"tier"`
	Violation             Violation             `json:"violation"`
	Signature             string                `json:"signature"`
	Exact                 bool                  `json:"exact_replay"` // false: depends on entropy the simulator does not own (native variant)
	Spec                  *RunSpec              `json:"spec,omitempty"`
	RefSpecs              map[string][]*RunSpec `json:"ref_specs,omitempty"`
	Pair                  []*RunSpec            `json:"pair,omitempty"`
	CliPair               []*CliFresh           `json:"cli_pair,omitempty"`
	Scenario              *Scenario             `json:"scenario,omitempty"`
	Observed              *ScenarioOutcome      `json:"observed,omitempty"`
	Journal               []JLine               `json:"journal,omitempty"`
	OpsBeforeMinimisation int                   `json:"ops_before_minimisation,omitempty"`
	OpsAfterMinimisation  int                   `json:"ops_after_minimisation,omitempty"`
	ShrinkRuns            int                   `json:"shrink_runs,omitempty"`
	Note                  string                `json:"note,omitempty"`
	GoskCommit            string                `json:"gosk_head,omitempty"`
}

func writeReplay(rf *ReplayFile) string {
	dir := filepath.Join(verifDir(), "replays")
	if d := os.Getenv("VERIF_REPLAY_DIR"); d != "" {
		dir = d
	}
	os.MkdirAll(dir, 0755)
	name := fmt.Sprintf("%s-%s-%d-%s.json", rf.Property, sanitize(rf.Violation.Class), rf.BaseSeed, time.Now().UTC().Format("20060102T150405.000"))
	p := filepath.Join(dir, name)
	if out, err := runCmd(repoDir(), os.Environ(), "git", "rev-parse", "--short", "HEAD"); err == nil {
		rf.GoskCommit = strings.TrimSpace(out)
	}
	if err := writeJSON(p, rf); err != nil {
		infraFail("cannot write replay file: %v", err)
	}
	return p
}

func sanitize(s string) string {
	var sb strings.Builder
	for _, c := range s {
		if (c >= 'a' && c <= 'z') || (c >= 'A' && c <= 'Z') || (c >= '0' && c <= '9') || c == '-' {
			sb.WriteRune(c)
		} else {
			sb.WriteByte('_')
		}
	}
	return sb.String()
}

// ---------- evidence ----------

type Evidence struct {
	PropertyID  string         `json:"property_id"`
	Tier        string         `json:"tier"`
	Seed        int64          `json:"seed"`
	Level       string         `json:"level"`
	Coverage    map[string]any `json:"coverage"`
	Assumptions []string       `json:"assumptions"`
	WallS       float64        `json:"wall_s"`
	Violations  int            `json:"violations"`
}

func writeEvidence(e *Evidence) {
	dir := filepath.Join(verifDir(), "evidence")
	if d := os.Getenv("VERIF_EVIDENCE_DIR"); d != "" { // sensitivity runs against broken variants must not touch the real evidence
		dir = d
	}
	p := filepath.Join(dir, e.PropertyID+".json")
	if err := writeJSON(p, e); err != nil {
		infraFail("cannot write evidence: %v", err)
	}
}

var componentsNote = map[string]any{
	"real":      []string{"cmd/gosk (shipped binary, default toolchain)", "internal/gen", "internal/ast", "internal/pass1", "internal/pass2", "internal/ocode_client", "internal/codegen", "pkg/asmdb incl. init()", "pkg/ng_operand", "internal/filefmt", "internal/frontend", "all third-party dependencies", "Go runtime", "Linux VFS (tmpfs)"},
	"simulated": []string{"wall clock (testing/synctest bubble)", "runtime entropy: map seeds and iteration offsets (patched runtime.rand in the scratch build)", "GC / sync.Pool schedule (scripted)", "prior destination contents", "process environment (TZ, LANG, HOME, GOGC, GOMAXPROCS, cwd, destination name)", "uid, rlimits, syscall results at chosen sites (C19)"},
	"stubbed":   []string{},
}
