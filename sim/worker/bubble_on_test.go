//go:build verifsim_bubble

//go:debug asynctimerchan=0
package verifsim_worker

import (
	"testing"
	"testing/synctest"
	_ "unsafe"
)

// Implemented in the patched copy of runtime/rand.go that /verif/check overlays in the
// scratch build of the sim worker (never in the installed toolchain, never in /repo).
//
//go:linkname rtSetMapSeed runtime.verifSetMapSeed
func rtSetMapSeed(s uint64)

//go:linkname rtMapDraws runtime.verifMapDraws
func rtMapDraws() uint64

func setMapSeed(s uint64) { rtSetMapSeed(s) }
func mapDraws() uint64    { return rtMapDraws() }

// runInBubble runs f on one goroutine inside a synctest bubble: every time.* call made by
// gosk or any dependency reads a fake clock that starts at 2000-01-01T00:00:00Z and moves
// only when the script says so.
func runInBubble(t *testing.T, f func()) {
	synctest.Test(t, func(t *testing.T) { f() })
}
