// Package verifsim_worker is the simulation worker of /verif. It is NOT part of the
// gosk repository: /verif/check compiles it *into* the gosk module with
// `go test -c -overlay`, mapping this file onto the non-existent directory
// /repo/internal/verifsim_worker, so that it can reach internal/frontend and
// internal/gen of the current working tree without writing anything to /repo.
//
// One worker process executes one fully explicit script (one history). The worker never
// draws random numbers and never reads a clock to make a decision: every choice was made by
// the orchestrator from VERIF_SEED and is written in the script.
package verifsim_worker

import (
	"crypto/sha256"
	"encoding/base64"
	"encoding/hex"
	"encoding/json"
	"fmt"
	"io"
	"log"
	"os"
	"runtime"
	"runtime/debug"
	"testing"
	"time"

	"github.com/HobbyOSs/gosk/internal/frontend"
	"github.com/HobbyOSs/gosk/internal/gen"
	"github.com/comail/colog"
)

type op struct {
	Op     string `json:"op"`
	P      int    `json:"p,omitempty"`      // program index (parse)
	T      int    `json:"t,omitempty"`      // tree slot (parse, exec)
	D      int    `json:"d,omitempty"`      // path index (exec, prefill)
	Ent    uint64 `json:"ent,omitempty"`    // entropy seed for this op (parse, exec)
	Ns     int64  `json:"ns,omitempty"`     // clock advance
	Kind   string `json:"kind,omitempty"`   // prefill: absent|data|copy ; logcfg: discard|std|info|debug
	Data   string `json:"data,omitempty"`   // prefill data, base64
	From   int    `json:"from,omitempty"`   // prefill copy: source path index
	Cycles int    `json:"cycles,omitempty"` // gc cycles
	Len    int    `json:"len,omitempty"`    // prefill gen: length
}

type script struct {
	Sources []string `json:"sources"` // base64
	Paths   []string `json:"paths"`
	Ops     []op     `json:"ops"`
	Sim     bool     `json:"sim"` // pin GOMAXPROCS(1), GC off, report clock and draw counts
	Procs   int      `json:"procs,omitempty"`
}

type jline struct {
	I     int      `json:"i"`
	Op    string   `json:"op"`
	Begin bool     `json:"begin,omitempty"`
	Out   string   `json:"out,omitempty"` // ok | parse_error | panic | io_error
	Msg   string   `json:"msg,omitempty"`
	Sha   string   `json:"sha,omitempty"`
	Len   int      `json:"len"`
	Draws uint64   `json:"draws,omitempty"`
	Now   int64    `json:"now,omitempty"`
	Sweep []string `json:"sweep,omitempty"` // per path: sha:len or "absent"
	End   bool     `json:"end,omitempty"`
	McSha string   `json:"mc_sha,omitempty"`
	McLen int      `json:"mc_len,omitempty"`
}

var journal *os.File

func emit(j jline) {
	b, _ := json.Marshal(j)
	b = append(b, '\n')
	if _, err := journal.Write(b); err != nil {
		fmt.Fprintf(os.Stderr, "verifsim worker: journal write: %v\n", err)
		os.Exit(97)
	}
}

func hashFile(p string) (string, int, bool) {
	b, err := os.ReadFile(p)
	if err != nil {
		return "", 0, false
	}
	s := sha256.Sum256(b)
	return hex.EncodeToString(s[:]), len(b), true
}

func setLog(cfg string) {
	switch cfg {
	case "discard":
		log.SetFlags(log.LstdFlags)
		log.SetOutput(io.Discard)
	case "std": // Go's default logger writing to a sink, with time stamps (reads the clock)
		log.SetFlags(log.LstdFlags | log.Lmicroseconds)
		log.SetOutput(io.Discard)
	case "info", "debug": // the way cmd/gosk and the repository's test suites configure colog
		colog.Register()
		colog.SetOutput(io.Discard)
		colog.SetDefaultLevel(colog.LInfo)
		if cfg == "debug" {
			colog.SetMinLevel(colog.LDebug)
		} else {
			colog.SetMinLevel(colog.LInfo)
		}
		colog.SetFlags(log.Lshortfile)
		colog.SetFormatter(&colog.StdFormatter{Colors: false})
	}
}

func TestWorker(t *testing.T) {
	sp := os.Getenv("VERIFSIM_SCRIPT")
	jp := os.Getenv("VERIFSIM_JOURNAL")
	if sp == "" || jp == "" {
		t.Skip("verifsim worker: no script")
	}
	raw, err := os.ReadFile(sp)
	if err != nil {
		fmt.Fprintf(os.Stderr, "verifsim worker: %v\n", err)
		os.Exit(98)
	}
	var sc script
	if err := json.Unmarshal(raw, &sc); err != nil {
		fmt.Fprintf(os.Stderr, "verifsim worker: bad script: %v\n", err)
		os.Exit(98)
	}
	journal, err = os.OpenFile(jp, os.O_WRONLY|os.O_CREATE|os.O_TRUNC|os.O_APPEND, 0644)
	if err != nil {
		fmt.Fprintf(os.Stderr, "verifsim worker: %v\n", err)
		os.Exit(98)
	}
	srcs := make([][]byte, len(sc.Sources))
	for i, s := range sc.Sources {
		srcs[i], err = base64.StdEncoding.DecodeString(s)
		if err != nil {
			fmt.Fprintf(os.Stderr, "verifsim worker: bad source %d\n", i)
			os.Exit(98)
		}
	}
	if sc.Sim {
		runtime.GOMAXPROCS(1)
		debug.SetGCPercent(-1)
	} else if sc.Procs > 0 {
		runtime.GOMAXPROCS(sc.Procs)
	}
	setLog("discard")
	runInBubble(t, func() { runScript(&sc, srcs) })
	emit(jline{I: len(sc.Ops), Op: "end", End: true})
	journal.Close()
}

func runScript(sc *script, srcs [][]byte) {
	trees := map[int]any{}
	for i, o := range sc.Ops {
		switch o.Op {
		case "parse":
			emit(jline{I: i, Op: o.Op, Begin: true})
			j := jline{I: i, Op: o.Op}
			func() {
				defer func() {
					if r := recover(); r != nil {
						j.Out, j.Msg = "panic", trunc(fmt.Sprint(r))
					}
				}()
				setMapSeed(o.Ent)
				opts := []gen.Option{gen.Entrypoint("Program")}
				fname := ""
				switch o.Kind { // parser options a library caller may pass; none may change the result
				case "memoize":
					opts = append(opts, gen.Memoize(true))
				case "filename":
					fname = "some/dir/prog.nas"
				case "norecover":
					opts = append(opts, gen.Recover(false))
				case "stats":
					var st gen.Stats
					opts = append(opts, gen.Statistics(&st, "no match"))
				}
				tree, err := gen.Parse(fname, srcs[o.P], opts...)
				j.Draws = mapDraws()
				if err != nil {
					j.Out, j.Msg = "parse_error", trunc(err.Error())
					delete(trees, o.T)
					return
				}
				trees[o.T] = tree
				j.Out = "ok"
			}()
			if sc.Sim {
				j.Now = time.Now().UnixNano()
			}
			emit(j)
		case "exec":
			emit(jline{I: i, Op: o.Op, Begin: true})
			j := jline{I: i, Op: o.Op}
			tree, have := trees[o.T]
			if !have {
				j.Out = "no_tree"
				emit(j)
				continue
			}
			func() {
				defer func() {
					if r := recover(); r != nil {
						j.Out, j.Msg = "panic", trunc(fmt.Sprint(r))
					}
				}()
				setMapSeed(o.Ent)
				_, p2 := frontend.Exec(tree, sc.Paths[o.D])
				j.Draws = mapDraws()
				j.Out = "ok"
				if o.Kind == "mc" && p2 != nil && p2.Client != nil {
					// a second opinion on "the assembled bytes": the machine code as the code generator
					// returns it in memory, independent of the file writer (C19 image reference, flat format)
					if mc, err := p2.Client.Exec(); err == nil {
						s := sha256.Sum256(mc)
						j.McSha, j.McLen = hex.EncodeToString(s[:]), len(mc)
						os.WriteFile(sc.Paths[o.D]+".mc", mc, 0644)
					}
				}
			}()
			if sha, n, ok := hashFile(sc.Paths[o.D]); ok {
				j.Sha, j.Len = sha, n
			} else if j.Out == "ok" {
				j.Out = "io_error"
			}
			if sc.Sim {
				j.Now = time.Now().UnixNano()
			}
			emit(j)
		case "prefill":
			j := jline{I: i, Op: o.Op, Out: "ok"}
			p := sc.Paths[o.D]
			switch o.Kind {
			case "absent":
				os.Remove(p)
			case "data":
				b, _ := base64.StdEncoding.DecodeString(o.Data)
				if err := os.WriteFile(p, b, 0644); err != nil {
					j.Out, j.Msg = "io_error", err.Error()
				}
				j.Len = len(b)
			case "gen": // seeded garbage generated here so that big prefills need no big script
				b := make([]byte, o.Len)
				x := o.Ent
				for k := range b {
					if k%8 == 0 {
						x += 0x9E3779B97F4A7C15
					}
					z := x
					z = (z ^ (z >> 30)) * 0xBF58476D1CE4E5B9
					z = (z ^ (z >> 27)) * 0x94D049BB133111EB
					z ^= z >> 31
					b[k] = byte(z >> (8 * uint(k%8)))
				}
				if err := os.WriteFile(p, b, 0644); err != nil {
					j.Out, j.Msg = "io_error", err.Error()
				}
				j.Len = len(b)
			case "symlink":
				os.Remove(p)
				if err := os.Symlink(sc.Paths[o.From], p); err != nil {
					j.Out, j.Msg = "io_error", err.Error()
				}
			case "hardlink":
				os.Remove(p)
				if err := os.Link(sc.Paths[o.From], p); err != nil {
					j.Out, j.Msg = "io_error", err.Error()
				}
			case "copy":
				b, err := os.ReadFile(sc.Paths[o.From])
				if err == nil {
					err = os.WriteFile(p, b, 0644)
				}
				if err != nil {
					j.Out, j.Msg = "io_error", err.Error()
				}
				j.Len = len(b)
			}
			emit(j)
		case "clock":
			if sc.Sim { // fake time inside the bubble: free. Never sleeps on the real clock.
				time.Sleep(time.Duration(o.Ns))
			}
			j := jline{I: i, Op: o.Op, Out: "ok"}
			if sc.Sim {
				j.Now = time.Now().UnixNano()
			}
			emit(j)
		case "gc":
			n := o.Cycles
			if n <= 0 {
				n = 2
			}
			for k := 0; k < n; k++ {
				runtime.GC()
			}
			emit(jline{I: i, Op: o.Op, Out: "ok"})
		case "logcfg":
			setLog(o.Kind)
			emit(jline{I: i, Op: o.Op, Out: "ok"})
		case "sweep":
			j := jline{I: i, Op: o.Op, Out: "ok"}
			for _, p := range sc.Paths {
				if sha, n, ok := hashFile(p); ok {
					j.Sweep = append(j.Sweep, fmt.Sprintf("%s:%d", sha, n))
				} else {
					j.Sweep = append(j.Sweep, "absent")
				}
			}
			emit(j)
		default:
			fmt.Fprintf(os.Stderr, "verifsim worker: unknown op %q\n", o.Op)
			os.Exit(98)
		}
	}
}

func trunc(s string) string {
	if len(s) > 300 {
		return s[:300]
	}
	return s
}
