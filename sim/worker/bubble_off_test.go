//go:build !verifsim_bubble

package verifsim_worker

import "testing"

func setMapSeed(s uint64) {}
func mapDraws() uint64    { return 0 }

func runInBubble(t *testing.T, f func()) { f() }
