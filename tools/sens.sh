#!/bin/bash
# usage: sens.sh <seeded id> <C10|C19> [tier]   -> applies seeded/<id>/patch.diff to a scratch worktree of /repo HEAD,
# runs the repository test suite (must pass) and the check (should report a VIOLATION), removes the worktree.
id=$1; prop=$2; tier=${3:-quick}
wt=/tmp/sens_$id
git -C /repo worktree remove --force $wt 2>/dev/null
git -C /repo worktree add -q --detach $wt HEAD || exit 2
if ! git -C $wt apply /verif/seeded/$id/patch.diff; then echo "PATCH DOES NOT APPLY"; git -C /repo worktree remove --force $wt; exit 2; fi
export GOFLAGS=-mod=mod GOPROXY=off GOSUMDB=off
if [ -z "$SKIP_TESTS" ]; then
  (cd $wt && go build ./... && go test -vet=off -count=1 ./... 2>&1 | grep -v "no test files" | grep -v "^ok" | head -5)
  echo "tests: $( (cd $wt && go test -vet=off -count=1 ./... >/dev/null 2>&1) && echo PASS || echo FAIL)"
fi
out=/tmp/sens_result_${id}_${prop}_${tier}.txt
mkdir -p /tmp/sens_out_$id
VERIF_REPO=$wt VERIF_BIN_DIR=/tmp/sens_bin_$id VERIF_EVIDENCE_DIR=/tmp/sens_out_$id VERIF_REPLAY_DIR=/tmp/sens_out_$id /verif/check $prop $tier > $out 2>&1
rc=$?
echo "check exit=$rc"; grep -A2 "^VIOLATION" $out | grep -v "^--" | cut -c1-220 | head -12; tail -1 $out | cut -c1-250
git -C /repo worktree remove --force $wt; rm -rf /tmp/sens_bin_$id
exit $rc
