#!/bin/bash
# usage: seedsweep.sh <first> <last> [tier]  - runs both checks for a range of VERIF_SEED values; prints one line per run
cd "$(dirname "$0")/.."
tier=${3:-quick}
for s in $(seq $1 $2); do
  for p in C10 C19; do
    VERIF_SEED=$s ./check $p $tier > /tmp/sweep_${p}_$s.log 2>&1; rc=$?
    echo "seed=$s $p $tier exit=$rc $(tail -1 /tmp/sweep_${p}_$s.log | cut -c1-160)"
    if [ $rc -ne 0 ]; then grep -A5 "^VIOLATION\|^INFRA" /tmp/sweep_${p}_$s.log | head -30; fi
  done
done
