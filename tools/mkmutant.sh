#!/bin/bash
# usage: mkmutant.sh <id> <python-edit-script>   -> creates /verif/seeded/<id>/patch.diff from a scratch worktree
set -e
id=$1; script=$2
wt=/tmp/mut_$id
git -C /repo worktree add -q --detach $wt HEAD
(cd $wt && python3 $script)
mkdir -p /verif/seeded/$id
git -C $wt diff > /verif/seeded/$id/patch.diff
(cd $wt && GOFLAGS=-mod=mod GOPROXY=off GOSUMDB=off go build ./... ) && echo "build ok"
git -C /repo worktree remove --force $wt
