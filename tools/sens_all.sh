#!/bin/bash
# Runs the quick tier against every seeded variant; prints one line per variant.
cd /verif
for d in seeded/*/; do
  id=$(basename $d); prop=$(python3 -c "import json;print(json.load(open('$d/meta.json'))['property'])")
  SKIP_TESTS=1 VERIF_NO_SHRINK=1 tools/sens.sh $id $prop quick > /tmp/sens_$id.out 2>&1; rc=$?
  echo "$id $prop exit=$rc $(grep -c '^VIOLATION' /tmp/sens_$id.out) violation line(s)"
done
